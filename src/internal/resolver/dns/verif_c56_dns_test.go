package dns

// C56: DNS target parsing versus a constructive reference over a target
// grammar, and pacing of the watcher (minimum resolution interval after a
// success, exponential backoff after failures, no lookups after Close) in a
// synctest bubble with a fake net resolver.

import (
	"context"
	"errors"
	"fmt"
	"net"
	"net/url"
	"strings"
	"testing"
	"testing/synctest"
	"time"

	"google.golang.org/grpc/internal/resolver/dns/internal"
	"google.golang.org/grpc/internal/verifkit/vk"
	"google.golang.org/grpc/resolver"
	"google.golang.org/grpc/serviceconfig"
	"pgregory.net/rapid"
)

// ------------------------------------------------------------- parsing --

type vfC56ParsePlan struct {
	// Kind of host: 0 hostname, 1 ipv4, 2 ipv6 (bare or bracketed per Form), 3 empty host
	HostKind int    `json:"host_kind"`
	Host     string `json:"host"`
	// Form: 0 host only, 1 host:port, 2 host + trailing colon, 3 [host], 4 [host]:port, 5 [host]: (trailing colon)
	Form int    `json:"form"`
	Port string `json:"port"`
	// Default port passed to parseTarget.
	Default string `json:"default"`
	// Raw, when non-empty, is an arbitrary target used only for the robustness
	// invariants (no expectation about acceptance).
	Raw string `json:"raw,omitempty"`
}

func vfC56GenV6(rt *rapid.T) string {
	grp := func() string { return rapid.StringMatching(`[0-9a-fA-F]{1,4}`).Draw(rt, "grp") }
	var s string
	switch rapid.IntRange(0, 5).Draw(rt, "v6kind") {
	case 0: // full 8 groups
		g := make([]string, 8)
		for i := range g {
			g[i] = grp()
		}
		s = strings.Join(g, ":")
	case 1: // compressed in the middle: a groups :: b groups, a+b <= 7, a,b >= 1
		a := rapid.IntRange(1, 6).Draw(rt, "a")
		b := rapid.IntRange(1, 7-a).Draw(rt, "b")
		var l, r []string
		for i := 0; i < a; i++ {
			l = append(l, grp())
		}
		for i := 0; i < b; i++ {
			r = append(r, grp())
		}
		s = strings.Join(l, ":") + "::" + strings.Join(r, ":")
	case 2: // leading ::
		b := rapid.IntRange(1, 7).Draw(rt, "b")
		var r []string
		for i := 0; i < b; i++ {
			r = append(r, grp())
		}
		s = "::" + strings.Join(r, ":")
	case 3: // trailing ::
		a := rapid.IntRange(1, 7).Draw(rt, "a")
		var l []string
		for i := 0; i < a; i++ {
			l = append(l, grp())
		}
		s = strings.Join(l, ":") + "::"
	case 4:
		s = rapid.SampledFrom([]string{"::", "::1", "::ffff:1.2.3.4", "64:ff9b::10.0.0.1", "2001:db8::1", "fe80::1"}).Draw(rt, "v6fixed")
	default: // with zone
		s = rapid.SampledFrom([]string{"fe80::1", "fe80::a:b", "::1"}).Draw(rt, "v6z") + "%" + rapid.StringMatching(`[a-z][a-z0-9]{0,5}`).Draw(rt, "zone")
	}
	return s
}

func vfC56GenParse(rt *rapid.T) vfC56ParsePlan {
	p := vfC56ParsePlan{Default: rapid.SampledFrom([]string{"443", "53", "80"}).Draw(rt, "default")}
	p.Port = rapid.SampledFrom([]string{"80", "443", "0", "65535", "8080", "1"}).Draw(rt, "port")
	switch rapid.IntRange(0, 9).Draw(rt, "kind") {
	case 0, 1, 2:
		p.HostKind = 0
		p.Host = rapid.StringMatching(`[a-zA-Z0-9]([a-zA-Z0-9-]{0,8}[a-zA-Z0-9])?(\.[a-zA-Z]([a-zA-Z0-9-]{0,6}[a-zA-Z0-9])?){0,3}\.?`).Draw(rt, "host")
		// purely numeric dotted names could be IPv4 literals: force a letter
		if strings.Trim(p.Host, "0123456789.") == "" {
			p.Host = "h" + p.Host
		}
		p.Form = rapid.SampledFrom([]int{0, 1, 2, 0, 1, 3, 4, 5}).Draw(rt, "form")
	case 3, 4:
		p.HostKind = 1
		p.Host = fmt.Sprintf("%d.%d.%d.%d", rapid.IntRange(0, 255).Draw(rt, "a"), rapid.IntRange(0, 255).Draw(rt, "b"), rapid.IntRange(0, 255).Draw(rt, "c"), rapid.IntRange(0, 255).Draw(rt, "d"))
		p.Form = rapid.SampledFrom([]int{0, 1, 2, 3, 4, 5}).Draw(rt, "form")
	case 5, 6, 7:
		p.HostKind = 2
		p.Host = vfC56GenV6(rt)
		p.Form = rapid.SampledFrom([]int{0, 3, 4, 5, 2, 4, 0}).Draw(rt, "form")
		if p.Form == 2 && strings.Contains(p.Host, "%") {
			// "<v6>%zone:" is itself a bare IPv6 literal whose zone ends in ':'
			// (zones are unrestricted strings): not a trailing-colon form.
			p.Form = 5
		}
	case 8:
		p.HostKind = 3
		p.Host = ""
		p.Form = rapid.SampledFrom([]int{0, 1, 2}).Draw(rt, "form")
	default:
		p.Raw = rapid.StringOfN(rapid.RuneFrom([]rune("a1:.[]%-/ :]")), 1, 12, -1).Draw(rt, "raw")
	}
	return p
}

func vfC56Target(p vfC56ParsePlan) string {
	switch p.Form {
	case 0:
		return p.Host
	case 1:
		return p.Host + ":" + p.Port
	case 2:
		return p.Host + ":"
	case 3:
		return "[" + p.Host + "]"
	case 4:
		return "[" + p.Host + "]:" + p.Port
	default:
		return "[" + p.Host + "]:"
	}
}

type vfC56CC struct {
	resolver.ClientConn
	onState func(resolver.State) error
	onErr   func(error)
}

func (c *vfC56CC) UpdateState(s resolver.State) error { return c.onState(s) }
func (c *vfC56CC) ReportError(err error)              { c.onErr(err) }
func (c *vfC56CC) ParseServiceConfig(string) *serviceconfig.ParseResult {
	return &serviceconfig.ParseResult{Err: errors.New("vfC56: no service config")}
}

func vfC56RunParse(_ *testing.T, p vfC56ParsePlan) vk.Result {
	if p.Raw != "" {
		// robustness only: never panics; success implies non-empty host and port
		h, pt, err := parseTarget(p.Raw, p.Default)
		if err == nil && pt == "" {
			return vk.Bad("parseTarget(%q) = (%q, %q, nil): no port applied", p.Raw, h, pt)
		}
		if err == nil && h == "" {
			// e.g. "[]" -> ("", default): not covered by the statement; counted only
			return vk.OK(false, "raw", "raw_empty_host_accepted")
		}
		if err != nil && (h != "" || pt != "") {
			return vk.Bad("parseTarget(%q) = (%q, %q, %v): result with error", p.Raw, h, pt, err)
		}
		if strings.HasSuffix(p.Raw, ":") && err == nil {
			if _, e := formatIP(p.Raw); e != nil { // a bare IPv6 may end in "::"
				return vk.Bad("parseTarget(%q) accepted a trailing colon: (%q, %q)", p.Raw, h, pt)
			}
		}
		return vk.OK(false, "raw")
	}
	target := vfC56Target(p)
	host, port, err := parseTarget(target, p.Default)
	cls := []string{fmt.Sprintf("hostkind_%d_form_%d", p.HostKind, p.Form)}
	// expectation by construction
	wantErr := false
	var wantIs error
	wantHost, wantPort := p.Host, p.Default
	switch {
	case p.HostKind == 3 && p.Form == 0: // ""
		wantErr, wantIs = true, internal.ErrMissingAddr
	case p.HostKind == 3 && p.Form == 1: // ":port" -> local system
		wantHost, wantPort = "localhost", p.Port
	case p.HostKind == 3 && p.Form == 2: // ":"
		wantErr, wantIs = true, internal.ErrEndsWithColon
	case p.HostKind == 2 && p.Form == 2 && strings.Contains(p.Host, "%"):
		return vk.Result{Discard: true} // the colon is part of the zone: a valid bare IPv6 literal
	case p.HostKind == 2 && p.Form == 2: // bare ipv6 followed by a colon: not an address, not host:port
		wantErr = true
	case p.HostKind == 2 && p.Form == 1:
		return vk.Result{Discard: true} // ambiguous by construction, not generated
	case p.Form == 2 || p.Form == 5:
		wantErr, wantIs = true, internal.ErrEndsWithColon
	case p.Form == 1 || p.Form == 4:
		wantPort = p.Port
	}
	if wantErr {
		if err == nil {
			return vk.Bad("parseTarget(%q, %q) = (%q, %q), want an error", target, p.Default, host, port).With(cls...)
		}
		if wantIs != nil && !errors.Is(err, wantIs) {
			return vk.Bad("parseTarget(%q, %q) error %v, want %v", target, p.Default, err, wantIs).With(cls...)
		}
		return vk.OK(true, append(cls, "rejected")...)
	}
	if err != nil {
		return vk.Bad("parseTarget(%q, %q) failed: %v; want (%q, %q)", target, p.Default, err, wantHost, wantPort).With(cls...)
	}
	if host != wantHost || port != wantPort {
		return vk.Bad("parseTarget(%q, %q) = (%q, %q), want (%q, %q)", target, p.Default, host, port, wantHost, wantPort).With(cls...)
	}
	// formatIP and the address emitted for IP-literal targets
	fip, ferr := formatIP(host)
	switch p.HostKind {
	case 0:
		if ferr == nil {
			return vk.Bad("formatIP(%q) accepted a host name: %q", host, fip)
		}
	case 1:
		if ferr != nil || fip != p.Host {
			return vk.Bad("formatIP(%q) = %q, %v; want the IPv4 address unchanged", host, fip, ferr)
		}
	case 2:
		if ferr != nil || fip != "["+p.Host+"]" {
			return vk.Bad("formatIP(%q) = %q, %v; want the IPv6 address in brackets", host, fip, ferr)
		}
	}
	if p.HostKind == 1 || p.HostKind == 2 {
		// Build on an IP literal emits exactly one address host:port (IPv6 bracketed).
		var got []resolver.State
		cc := &vfC56CC{onState: func(s resolver.State) error { got = append(got, s); return nil }, onErr: func(error) {}}
		if p.Default == "443" {
			r, berr := NewBuilder().Build(resolver.Target{URL: url.URL{Scheme: "dns", Path: "/" + target}}, cc, resolver.BuildOptions{})
			if berr != nil {
				return vk.Bad("Build(%q) failed: %v", target, berr)
			}
			r.ResolveNow(resolver.ResolveNowOptions{})
			r.Close()
			want := p.Host + ":" + wantPort
			if p.HostKind == 2 {
				want = "[" + p.Host + "]:" + wantPort
			}
			if len(got) != 1 || len(got[0].Addresses) != 1 || got[0].Addresses[0].Addr != want {
				return vk.Bad("Build(%q) emitted %+v, want one address %q", target, got, want)
			}
			cls = append(cls, "built_ip_literal")
		}
	}
	nt := p.HostKind == 2 || p.Form >= 2 || p.HostKind == 3
	return vk.OK(nt, cls...)
}

func TestVerifC56Parse(t *testing.T) {
	vk.Check(t, vk.Unit[vfC56ParsePlan]{
		ID: "C56", Name: "parse",
		Rule: "targets built from a grammar whose class is known by construction: host names (labels, optional trailing dot), IPv4, IPv6 (8 groups, '::' in the middle/front/end, embedded IPv4, zones), empty host; forms host | host:port | host: | [host] | [host]:port | [host]: ; default port 443/53/80. Expected (host, port) or error (ErrMissingAddr / ErrEndsWithColon / any error for bare-IPv6+':') follows from the construction; formatIP and the address emitted by Build for IP literals are checked too. 10% raw strings over 'a1:.[]%-/ ' only for robustness invariants. non-trivial = IPv6, bracketed, trailing-colon or empty-host forms",
		Gen:  vfC56GenParse, Run: vfC56RunParse,
	})
}

// -------------------------------------------------------------- pacing --

type vfC56Lookup struct {
	// Outcome 0: success with Addrs; 1: temporary DNS error; 2: timeout DNS
	// error; 3: not-found DNS error (suppressed by the resolver: empty address
	// list is reported as a success); 4: address list containing a non-IP string
	Outcome int      `json:"outcome"`
	Addrs   []string `json:"addrs,omitempty"`
	// LatencyMs is the virtual time the lookup takes (whole ms).
	LatencyMs int64 `json:"latency_ms"`
	// CCErr: the ClientConn rejects the update (UpdateState returns an error).
	CCErr bool `json:"cc_err,omitempty"`
}

type vfC56Pacing struct {
	Port    string        `json:"port"` // "" = default
	Lookups []vfC56Lookup `json:"lookups"` // k-th lookup result (last one repeats)
	// ResolveNowMs: absolute virtual times (ms) of ResolveNow calls; a distinct
	// sub-millisecond offset is added to each so that they never coincide with
	// the completion of a lookup.
	ResolveNowMs []int64 `json:"resolve_now_ms"`
	// CloseMs: virtual time (ms) of Close.
	CloseMs int64 `json:"close_ms"`
	// AfterCloseMs: observation time after Close returned.
	AfterCloseMs int64 `json:"after_close_ms"`
}

func vfC56GenPacing(rt *rapid.T) vfC56Pacing {
	p := vfC56Pacing{Port: rapid.SampledFrom([]string{"", "80", "8443"}).Draw(rt, "port")}
	nl := rapid.IntRange(2, vk.Pick(12, 40)).Draw(rt, "nlookups")
	failRun := rapid.Bool().Draw(rt, "failrun")
	for i := 0; i < nl; i++ {
		l := vfC56Lookup{LatencyMs: rapid.SampledFrom([]int64{0, 1, 20, 1000, 0, 29000}).Draw(rt, "lat")}
		oc := rapid.SampledFrom([]int{0, 0, 0, 1, 2, 3, 4, 0}).Draw(rt, "outcome")
		if failRun && rapid.IntRange(0, 2).Draw(rt, "morefail") > 0 {
			oc = rapid.SampledFrom([]int{1, 2}).Draw(rt, "failoutcome")
		}
		l.Outcome = oc
		if oc == 0 || oc == 4 {
			l.Addrs = rapid.SliceOfN(rapid.SampledFrom([]string{"1.2.3.4", "10.0.0.1", "::1", "2001:db8::1", "fe80::1%eth0", "::ffff:1.2.3.4"}), 1, 3).Draw(rt, "addrs")
			if oc == 4 {
				l.Addrs = append(l.Addrs, "not-an-ip")
			}
		}
		l.CCErr = rapid.IntRange(0, 7).Draw(rt, "ccerr") == 0
		p.Lookups = append(p.Lookups, l)
	}
	horizon := int64(vk.Pick(400, 1500)) * 1000
	p.CloseMs = horizon - rapid.Int64Range(0, 5000).Draw(rt, "closeback")
	if rapid.IntRange(0, 3).Draw(rt, "closeearly") == 0 {
		p.CloseMs = rapid.Int64Range(0, horizon).Draw(rt, "close")
	}
	nr := rapid.IntRange(3, vk.Pick(16, 60)).Draw(rt, "nresolvenow")
	if rapid.IntRange(0, 7).Draw(rt, "norn") == 0 {
		nr = 0
	}
	t := int64(0)
	for i := 0; i < nr; i++ {
		switch rapid.IntRange(0, 4).Draw(rt, "gapkind") {
		case 0:
			t += rapid.Int64Range(0, 2000).Draw(rt, "gap")
		case 1:
			t += rapid.Int64Range(25000, 35000).Draw(rt, "gap")
		case 2:
			t += 30000
		default:
			t += rapid.Int64Range(0, 90000).Draw(rt, "gap")
		}
		p.ResolveNowMs = append(p.ResolveNowMs, t)
	}
	p.AfterCloseMs = rapid.SampledFrom([]int64{0, 1000, 31000, 200000}).Draw(rt, "after")
	return p
}

type vfC56FakeNet struct {
	plan    []vfC56Lookup
	n       int
	starts  []time.Time
	active  int
	maxAct  int
	closed  *bool
	lateMsg *string
}

func (f *vfC56FakeNet) LookupHost(ctx context.Context, host string) ([]string, error) {
	if *f.closed {
		*f.lateMsg = fmt.Sprintf("lookup started at %v after Close returned", time.Now())
	}
	k := f.n
	f.n++
	f.starts = append(f.starts, time.Now())
	f.active++
	if f.active > f.maxAct {
		f.maxAct = f.active
	}
	defer func() { f.active-- }()
	l := f.plan[len(f.plan)-1]
	if k < len(f.plan) {
		l = f.plan[k]
	}
	if l.LatencyMs > 0 {
		select {
		case <-ctx.Done():
			return nil, ctx.Err()
		case <-time.After(time.Duration(l.LatencyMs) * time.Millisecond):
		}
	}
	switch l.Outcome {
	case 1:
		return nil, &net.DNSError{Err: "vfC56 temporary", Name: host, IsTemporary: true}
	case 2:
		return nil, &net.DNSError{Err: "vfC56 timeout", Name: host, IsTimeout: true}
	case 3:
		return nil, &net.DNSError{Err: "vfC56 no such host", Name: host, IsNotFound: true}
	}
	return append([]string(nil), l.Addrs...), nil
}

func (f *vfC56FakeNet) LookupSRV(context.Context, string, string, string) (string, []*net.SRV, error) {
	return "", nil, &net.DNSError{Err: "vfC56 no srv", IsNotFound: true}
}

func (f *vfC56FakeNet) LookupTXT(context.Context, string) ([]string, error) {
	return nil, &net.DNSError{Err: "vfC56 no txt", IsNotFound: true}
}

// vfC56BackoffBounds returns the bounds of the k-th consecutive retry delay
// (k >= 1) of gRPC's default exponential backoff: min(1s*1.6^k, 120s) +-20%.
func vfC56BackoffBounds(k int) (time.Duration, time.Duration) {
	b := float64(time.Second)
	for i := 0; i < k && b < float64(120*time.Second); i++ {
		b *= 1.6
	}
	if b > float64(120*time.Second) {
		b = float64(120 * time.Second)
	}
	return time.Duration(b*0.8) - time.Microsecond, time.Duration(b*1.2) + time.Microsecond
}

func vfC56RunPacing(t *testing.T, p vfC56Pacing) vk.Result {
	if len(p.Lookups) == 0 || p.CloseMs < 0 || p.AfterCloseMs < 0 {
		return vk.Result{Discard: true}
	}
	for _, l := range p.Lookups {
		if l.LatencyMs < 0 || l.LatencyMs >= 30000 {
			return vk.Result{Discard: true}
		}
	}
	var res vk.Result
	closed := false
	late := ""
	fake := &vfC56FakeNet{plan: p.Lookups, closed: &closed, lateMsg: &late}
	saved := internal.NewNetResolver
	internal.NewNetResolver = func(string) (internal.NetResolver, error) { return fake, nil }
	defer func() { internal.NewNetResolver = saved }()

	msg := vk.Bubble(t, func(t *testing.T) { res = vfC56PacingInBubble(p, fake, &closed, &late) })
	if msg != "" {
		return vk.Bad("%s", msg)
	}
	return res
}

type vfC56Done struct {
	at      time.Time
	success bool
	addrs   []string
}

func vfC56PacingInBubble(p vfC56Pacing, fake *vfC56FakeNet, closed *bool, late *string) vk.Result {
	t0 := time.Now()
	var dones []vfC56Done
	ccErr := errors.New("vfC56: bad resolver state")
	cc := &vfC56CC{}
	cc.onState = func(s resolver.State) error {
		k := len(dones)
		l := p.Lookups[len(p.Lookups)-1]
		if k < len(p.Lookups) {
			l = p.Lookups[k]
		}
		var as []string
		for _, a := range s.Addresses {
			as = append(as, a.Addr)
		}
		if l.CCErr {
			dones = append(dones, vfC56Done{at: time.Now(), success: false, addrs: as})
			return ccErr
		}
		dones = append(dones, vfC56Done{at: time.Now(), success: true, addrs: as})
		return nil
	}
	cc.onErr = func(error) { dones = append(dones, vfC56Done{at: time.Now(), success: false}) }

	port := p.Port
	target := "vfc56.example.test"
	if port != "" {
		target += ":" + port
	} else {
		port = "443"
	}
	r, err := NewBuilder().Build(resolver.Target{URL: url.URL{Scheme: "dns", Path: "/" + target}}, cc, resolver.BuildOptions{DisableServiceConfig: true})
	if err != nil {
		return vk.Bad("Build(%q): %v", target, err)
	}
	// schedule: ResolveNow calls and Close, in virtual time order
	var rnTimes []time.Time
	closeAt := t0.Add(time.Duration(p.CloseMs) * time.Millisecond)
	for i, ms := range p.ResolveNowMs {
		at := t0.Add(time.Duration(ms)*time.Millisecond + time.Duration(7*(i+1))*time.Microsecond)
		if at.After(closeAt) {
			break
		}
		time.Sleep(time.Until(at))
		synctest.Wait()
		r.ResolveNow(resolver.ResolveNowOptions{})
		rnTimes = append(rnTimes, time.Now())
		synctest.Wait()
	}
	time.Sleep(time.Until(closeAt))
	synctest.Wait()
	r.Close()
	*closed = true
	closeRet := time.Now()
	nAtClose := len(fake.starts)
	r.ResolveNow(resolver.ResolveNowOptions{})
	time.Sleep(time.Duration(p.AfterCloseMs) * time.Millisecond)
	synctest.Wait()

	// ---------------- oracle ----------------
	if *late != "" {
		return vk.Bad("%s", *late)
	}
	if len(fake.starts) != nAtClose {
		return vk.Bad("%d lookups started after Close returned", len(fake.starts)-nAtClose)
	}
	if fake.maxAct > 1 {
		return vk.Bad("%d lookups in flight at once", fake.maxAct)
	}
	if len(fake.starts) == 0 || !fake.starts[0].Equal(t0) {
		if !(p.CloseMs == 0 && len(fake.starts) <= 1) {
			return vk.Bad("first lookup not started at build time: %v", fake.starts)
		}
	}
	rel := func(x time.Time) time.Duration { return x.Sub(t0) }
	insideInterval, waitedForRN, failures, sawBackoffCap := false, false, 0, false
	classes := []string{}
	lastConsume := time.Time{} // zero: rn never consumed
	consecFail := 0
	for k := 0; k < len(fake.starts); k++ {
		if k >= len(dones) {
			// lookup k was still in flight when Close cancelled it (or its result
			// was never delivered): must be the last one
			if k != len(fake.starts)-1 {
				return vk.Bad("lookup %d never reported although lookup %d started", k, k+1)
			}
			break
		}
		d := dones[k]
		l := p.Lookups[len(p.Lookups)-1]
		if k < len(p.Lookups) {
			l = p.Lookups[k]
		}
		cancelled := k == len(fake.starts)-1 && !d.at.Before(closeAt) && d.at.Sub(fake.starts[k]) < time.Duration(l.LatencyMs)*time.Millisecond
		// reported result matches the fake's outcome
		if !cancelled {
			lookupOK := l.Outcome == 0 || l.Outcome == 3
			wantSuccess := lookupOK && !l.CCErr
			if d.success != wantSuccess {
				return vk.Bad("lookup %d (outcome %d, ccErr %v) reported success=%v", k, l.Outcome, l.CCErr, d.success)
			}
			if lookupOK {
				var want []string
				if l.Outcome == 0 {
					for _, a := range l.Addrs {
						if strings.Contains(a, ":") {
							want = append(want, "["+a+"]:"+port)
						} else {
							want = append(want, a+":"+port)
						}
					}
				}
				if fmt.Sprint(d.addrs) != fmt.Sprint(want) {
					return vk.Bad("lookup %d: emitted addresses %v, want %v", k, d.addrs, want)
				}
			}
		}
		if k+1 >= len(fake.starts) {
			// no further lookup: liveness — was one due before Close?
			if cancelled {
				break
			}
			if d.success {
				// due at max(d.at+30s, first unconsumed ResolveNow)
				var rn time.Time
				for _, x := range rnTimes {
					if x.After(lastConsume) {
						rn = x
						break
					}
				}
				if !rn.IsZero() {
					due := d.at.Add(MinResolutionInterval)
					if rn.After(due) {
						due = rn
					}
					if due.Before(closeAt) {
						return vk.Bad("after the success at %v a ResolveNow arrived at %v but no lookup started by %v (Close at %v)", rel(d.at), rel(rn), rel(due), rel(closeAt))
					}
				}
			} else {
				_, hi := vfC56BackoffBounds(consecFail + 1)
				if d.at.Add(hi).Before(closeAt) {
					return vk.Bad("after the failure at %v (retry %d) no lookup started by %v (Close at %v)", rel(d.at), consecFail+1, rel(d.at.Add(hi)), rel(closeAt))
				}
			}
			break
		}
		next := fake.starts[k+1]
		gap := next.Sub(d.at)
		if d.success {
			consecFail = 0
			// exact model: rn is a one-slot buffer filled by any ResolveNow since
			// its last consumption; after a success the watcher consumes it (or
			// waits for the next call) and then waits out the minimum interval.
			var rn time.Time
			for _, x := range rnTimes {
				if x.After(lastConsume) {
					rn = x
					break
				}
			}
			if rn.IsZero() {
				return vk.Bad("lookup %d started at %v after the success at %v although no re-resolution request had arrived", k+1, rel(next), rel(d.at))
			}
			if gap < MinResolutionInterval {
				return vk.Bad("lookup %d started %v after the success at %v: below the minimum resolution interval", k+1, gap, rel(d.at))
			}
			consume := d.at
			if rn.After(d.at) {
				consume = rn
				waitedForRN = true
				if rn.Sub(d.at) < MinResolutionInterval {
					insideInterval = true
				}
			} else {
				insideInterval = true // request arrived before/during the lookup
			}
			want := d.at.Add(MinResolutionInterval)
			if consume.After(want) {
				want = consume
			}
			if !next.Equal(want) {
				return vk.Bad("lookup %d started at %v; success at %v, ResolveNow at %v => want %v", k+1, rel(next), rel(d.at), rel(rn), rel(want))
			}
			lastConsume = consume
		} else {
			consecFail++
			failures++
			lo, hi := vfC56BackoffBounds(consecFail)
			if gap < lo || gap > hi {
				return vk.Bad("lookup %d started %v after failure number %d at %v: outside the backoff bounds [%v, %v]", k+1, gap, consecFail, rel(d.at), lo, hi)
			}
			if consecFail >= 11 {
				sawBackoffCap = true
			}
		}
	}
	_ = closeRet
	if insideInterval {
		classes = append(classes, "resolvenow_inside_min_interval")
	}
	if waitedForRN {
		classes = append(classes, "waited_for_resolvenow")
	}
	if failures > 0 {
		classes = append(classes, "backoff_retries")
	}
	if failures >= 3 {
		classes = append(classes, "backoff_retries>=3")
	}
	if sawBackoffCap {
		classes = append(classes, "backoff_at_cap")
	}
	if len(dones) < len(fake.starts) || (len(dones) > 0 && !dones[len(dones)-1].at.Before(closeAt)) {
		classes = append(classes, "close_during_lookup")
	}
	return vk.Result{NonTrivial: insideInterval, Classes: classes, Steps: len(fake.starts)}
}

func TestVerifC56Pacing(t *testing.T) {
	vk.Check(t, vk.Unit[vfC56Pacing]{
		ID: "C56", Name: "pacing",
		Rule: "a real dnsResolver (Build on a host name) in a synctest bubble with a fake net resolver whose k-th LookupHost takes 0..29s of virtual time and succeeds (1..3 IPv4/IPv6 addresses), fails temporarily / times out, returns not-found (suppressed => empty success) or a non-IP string; the fake ClientConn rejects 1/8 of the updates. ResolveNow at generated virtual times (gaps 0..2s, 25..35s, exactly 30s, 0..90s), Close near 400/1500 s (25% uniformly earlier), observation after Close. Oracle on virtual timestamps: after a success the next lookup starts exactly at max(success+30s, first unconsumed ResolveNow) and not at all without one; after the k-th consecutive failure the gap is within 1.6^k s (cap 120 s) ±20%; lookups never overlap; due lookups do happen before Close; none starts after Close returned; emitted addresses are ip:port with IPv6 bracketed. non-trivial = a ResolveNow arrived inside the minimum interval (or during the lookup) and the next lookup was deferred accordingly",
		Gen:  vfC56GenPacing, Run: vfC56RunPacing,
	})
}
