package transport

// C05, stress unit: producer and reader really run concurrently (no schedule
// control), to reach interleavings inside put/load that the deterministic unit
// cannot (there is no yield point between the reader's channel receive and its
// load()). The oracle is the same byte-stream ledger. Not bit-reproducible: the
// plan fixes sizes and pacing only.

import (
	"context"
	"fmt"
	"io"
	"runtime"
	"testing"

	"google.golang.org/grpc/internal/envconfig"
	"google.golang.org/grpc/internal/verifkit/sched"
	"google.golang.org/grpc/internal/verifkit/trackpool"
	"google.golang.org/grpc/internal/verifkit/vk"
	"google.golang.org/grpc/mem"
	"pgregory.net/rapid"
)

type vfC05StressPlan struct {
	Compaction bool  `json:"compaction"`
	Puts       int   `json:"puts"`      // number of data messages
	MaxSize    int   `json:"max_size"`  // sizes 1..MaxSize (derived from the index)
	PutYield   int   `json:"put_yield"` // the producer yields the processor after every PutYield-th put (0: never)
	Reads      []int `json:"reads"`     // read sizes, used cyclically; negative: ReadMessageHeader(-n)
	ReadYield  int   `json:"read_yield"`
}

func vfC05StressGen(rt *rapid.T) vfC05StressPlan {
	p := vfC05StressPlan{Compaction: sched.Uniform(rt, "compaction", 0, 3) > 0}
	p.Puts = sched.Uniform(rt, "puts", 200, vk.Pick(6000, 20000))
	p.MaxSize = rapid.SampledFrom([]int{1, 4, 30, 56, 100, 300, 2000}).Draw(rt, "max_size")
	p.PutYield = sched.Uniform(rt, "put_yield", 0, 6)
	p.ReadYield = sched.Uniform(rt, "read_yield", 0, 6)
	n := sched.Uniform(rt, "nreads", 1, 6)
	for i := 0; i < n; i++ {
		switch sched.Uniform(rt, "rk", 0, 3) {
		case 0:
			p.Reads = append(p.Reads, -sched.Uniform(rt, "h", 1, 16))
		case 1:
			p.Reads = append(p.Reads, sched.Uniform(rt, "big", 100, 20000))
		default:
			p.Reads = append(p.Reads, sched.Uniform(rt, "n", 1, 64))
		}
	}
	return p
}

func vfC05StressRun(t *testing.T, p vfC05StressPlan) vk.Result {
	if p.Puts < 1 || p.Puts > 200000 || p.MaxSize < 1 || p.MaxSize > http2MaxFrameLen || len(p.Reads) == 0 {
		return vk.Result{Discard: true}
	}
	for _, r := range p.Reads {
		if r == 0 || r < -1<<16 {
			return vk.Result{Discard: true}
		}
	}
	var res vk.Result
	msg := vk.Bubble(t, func(t *testing.T) { res = vfC05StressExec(p) })
	if res.Violation == "" && msg != "" {
		// both goroutines durably blocked: a message or the terminal was lost
		return vk.Bad("producer/reader did not finish: %s", msg)
	}
	return res
}

func vfC05StressExec(p vfC05StressPlan) vk.Result {
	saved := envconfig.EnableReceiveBufferCompaction
	envconfig.EnableReceiveBufferCompaction = p.Compaction
	defer func() { envconfig.EnableReceiveBufferCompaction = saved }()

	pool := trackpool.New(trackpool.Options{})
	var rb recvBuffer
	rb.init(pool)
	rd := &recvBufferReader{ctx: context.Background(), recv: &rb}

	total := 0
	sizes := make([]int, p.Puts)
	for i := range sizes {
		sizes[i] = vfC05Tiny(7, i, p.MaxSize)
		total += sizes[i]
	}
	sawBacklog, sawDirect, compactions := false, false, 0
	prodDone := make(chan struct{})
	go func() {
		defer close(prodDone)
		pos := 0
		for i, sz := range sizes {
			var b []byte
			if mem.IsBelowBufferPoolingThreshold(sz) {
				b = make([]byte, sz)
			} else {
				b = *pool.Get(sz)
			}
			for j := range b {
				b[j] = vfC05Byte(pos + j)
			}
			pos += sz
			rb.put(recvMsg{buffer: mem.NewBuffer(&b, pool)})
			rb.mu.Lock()
			if len(rb.backlog) > 0 {
				sawBacklog = true
			} else {
				sawDirect = true
			}
			rb.mu.Unlock()
			if p.PutYield > 0 && i%p.PutYield == 0 {
				runtime.Gosched()
			}
		}
		rb.put(recvMsg{err: io.EOF})
	}()

	verdict := ""
	pos := 0
	for k := 0; ; k++ {
		r := p.Reads[k%len(p.Reads)]
		var data []byte
		var buf mem.Buffer
		var err error
		if r < 0 {
			h := make([]byte, -r)
			var n int
			n, err = rd.ReadMessageHeader(h)
			data = h[:n]
		} else {
			buf, err = rd.Read(r)
			if buf != nil {
				data = buf.ReadOnlyData()
			}
		}
		if err != nil {
			if err != io.EOF {
				verdict = fmt.Sprintf("read %d returned %v, want io.EOF", k, err)
			} else if pos != total {
				verdict = fmt.Sprintf("io.EOF after %d of %d bytes (data lost)", pos, total)
			}
			break
		}
		if len(data) > total-pos {
			verdict = fmt.Sprintf("read %d delivered %d bytes at offset %d, only %d were sent", k, len(data), pos, total)
			break
		}
		bad := false
		for i, b := range data {
			if b != vfC05Byte(pos+i) {
				verdict = fmt.Sprintf("read %d delivered a wrong byte at stream offset %d: got %#x want %#x (chunk of %d bytes at offset %d; lost, duplicated or reordered data)", k, pos+i, b, vfC05Byte(pos+i), len(data), pos)
				bad = true
				break
			}
		}
		if bad {
			break
		}
		pos += len(data)
		if buf != nil {
			buf.Free()
		}
		if p.ReadYield > 0 && k%p.ReadYield == 0 {
			runtime.Gosched()
		}
	}
	if verdict != "" {
		// drain so that the producer can finish (it never blocks) and nothing is left behind
		<-prodDone
		return vk.Bad("%s", verdict)
	}
	<-prodDone
	if v := pool.Violations(); len(v) > 0 {
		return vk.Bad("buffer pool misuse: %s", v[0])
	}
	gets, _, _ := pool.Stats()
	for _, sz := range sizes {
		if !mem.IsBelowBufferPoolingThreshold(sz) {
			gets--
		}
	}
	compactions = gets
	res := vk.Result{NonTrivial: sawBacklog && sawDirect, Steps: p.Puts}
	if sawBacklog && sawDirect {
		res.Classes = append(res.Classes, "backlog_and_direct_handoff")
	}
	if compactions > 0 {
		res.Classes = append(res.Classes, "compaction")
	}
	return res
}

func TestVerifC05Stress(t *testing.T) {
	vk.Check(t, vk.Unit[vfC05StressPlan]{
		ID: "C05", Name: "recvbuf_stress",
		Rule: "stress: a producer goroutine puts 200..6000 (thorough 20000) messages of 1..MaxSize bytes then io.EOF while a reader goroutine concurrently reads with a cyclic list of Read/ReadMessageHeader sizes; pacing by optional Gosched; schedule not controlled (not bit-reproducible); non-trivial = both the direct channel hand-off and the backlog path were taken",
		Gen:  vfC05StressGen, Run: vfC05StressRun,
	})
}
