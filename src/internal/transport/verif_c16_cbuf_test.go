package transport

// C16: control-frame throttling never deadlocks and close releases everything.
//
// Real controlBuffer; cooperative workers (one consumer = loopy, producers,
// reader(s) calling throttle, optional finisher and closer of done) interleaved
// at the cbuf.* verifhook points and at operation starts by the plan's schedule
// list. A reference model (FIFO queue, count of throttled items, closed, done)
// is advanced from the completion records of the operations; the oracles are
// evaluated at every quiescent point.

import (
	"fmt"
	"sort"
	"sync"
	"testing"

	"google.golang.org/grpc/internal/verifkit/sched"
	"google.golang.org/grpc/internal/verifkit/vk"
	"google.golang.org/grpc/mem"
	"pgregory.net/rapid"
)

type vfC16Plan struct {
	Limit   int     `json:"limit"`   // maxQueuedControlBufferItems for this case (1..8)
	Prod    [][]int `json:"prod"`    // per producer, item kinds to put: 0 throttled (ping) 1 dataFrame 2 clientHeaders 3 clientHeaders whose executeAndPut callback fails 4 throttled (incomingWindowUpdate)
	Cons    []int   `json:"cons"`    // consumer ops: 0 get(false) 1 get(true)
	Readers [][]int `json:"readers"` // per reader: 0 throttle  1 throttle then put a throttled item
	Finish  int     `json:"finish"`  // 0 no finish, 1 finisher worker, 2 the consumer calls finish after its last op (loopy exit)
	Close   bool    `json:"close"`   // closer worker closes done (transport closed)
	Sched   []int   `json:"sched"`
}

const (
	vfC16Consumer  = 0
	vfC16Producer0 = 1
	vfC16Reader0   = 10
	vfC16Finisher  = 20
	vfC16Closer    = 21
)

func vfC16Gen(rt *rapid.T) vfC16Plan {
	maxOps := vk.Pick(6, 20)
	p := vfC16Plan{Limit: sched.Uniform(rt, "limit", 1, vk.Pick(3, 8))}
	np := sched.Uniform(rt, "nprod", 1, 2)
	for i := 0; i < np; i++ {
		n := sched.Uniform(rt, "nput", 1, maxOps)
		ops := make([]int, n)
		for j := range ops {
			// mostly throttled items, so that the count crosses the limit
			switch sched.Uniform(rt, "kind", 0, 10) {
			case 0:
				ops[j] = 1
			case 1:
				ops[j] = 2
			case 2:
				ops[j] = 3
			case 3, 4:
				ops[j] = 4
			case 10:
				ops[j] = 5 + sched.Uniform(rt, "eap_ok", 0, 1) // throttled item offered through executeAndPut: callback fails (5) / succeeds (6)
			default:
				ops[j] = 0
			}
		}
		p.Prod = append(p.Prod, ops)
	}
	n := sched.Uniform(rt, "ncons", 0, 3*maxOps)
	for i := 0; i < n; i++ {
		p.Cons = append(p.Cons, sched.Uniform(rt, "block", 0, 1))
	}
	nr := 1
	if sched.Uniform(rt, "two_readers", 0, 3) == 0 {
		nr = 2
	}
	for i := 0; i < nr; i++ {
		m := sched.Uniform(rt, "nthr", 1, maxOps)
		ops := make([]int, m)
		for j := range ops {
			ops[j] = sched.Uniform(rt, "thrput", 0, 1)
		}
		p.Readers = append(p.Readers, ops)
	}
	switch sched.Uniform(rt, "finish", 0, 7) {
	case 0:
		p.Finish = 1
	case 1:
		p.Finish = 2
	}
	p.Close = sched.Uniform(rt, "close", 0, 7) == 0
	p.Sched = sched.GenSchedule(rt, "sched", vk.Pick(150, 400), 8, 4)
	return p
}

// vfC16Pool observes frees of pooled buffers.
type vfC16Pool struct {
	mu      sync.Mutex
	puts    map[*[]byte]int
	onEvent func() // called outside p.mu; lets the harness yield when the control buffer's mutex is not held
}

func (p *vfC16Pool) Get(n int) *[]byte { b := make([]byte, n); return &b }
func (p *vfC16Pool) Put(b *[]byte) {
	p.mu.Lock()
	p.puts[b]++
	p.mu.Unlock()
	if p.onEvent != nil {
		p.onEvent()
	}
}

type vfC16Event struct {
	worker int
	kind   string // putDone getDone thrStart thrDone finishDone closeDone
	item   int    // putDone: item id
	ok     bool   // putDone
	err    error
	block  bool // getDone
	got    any  // getDone
}

type vfC16ModelItem struct {
	id        int
	throttled bool
	kind      int
}

func vfC16Run(t *testing.T, p vfC16Plan) vk.Result {
	if p.Limit < 1 || len(p.Prod) == 0 || len(p.Prod) > 4 || len(p.Readers) > 4 {
		return vk.Result{Discard: true}
	}
	for _, ops := range p.Prod {
		for _, k := range ops {
			if k < 0 || k > 6 {
				return vk.Result{Discard: true}
			}
		}
	}
	var res vk.Result
	msg := vk.Bubble(t, func(t *testing.T) { res = vfC16Exec(p) })
	if res.Violation == "" && msg != "" {
		return vk.Bad("bubble did not drain: %s", msg)
	}
	return res
}

func vfC16Exec(p vfC16Plan) vk.Result {
	saved := maxQueuedControlBufferItems
	maxQueuedControlBufferItems = p.Limit
	defer func() { maxQueuedControlBufferItems = saved }()

	done := make(chan struct{})
	cb := newControlBuffer(done)
	pool := &vfC16Pool{puts: map[*[]byte]int{}}

	var mu sync.Mutex // guards events, orphans
	classes0 := map[string]bool{}
	var maybeYieldFn func(string)
	maybeYield := func(point string) {
		if maybeYieldFn != nil {
			maybeYieldFn(point)
		}
	}
	var events []vfC16Event
	logEv := func(e vfC16Event) { mu.Lock(); events = append(events, e); mu.Unlock() }
	orphans := map[int]int{}      // clientHeaders id -> onOrphaned calls
	orphanErrs := map[int]error{} // last error passed
	itemOf := map[any]int{}       // real item pointer -> id (written before the put, by the only running goroutine)
	kindOf := map[int]int{}
	bufOf := map[int]*[]byte{}
	streamOf := map[int]uint32{} // incomingWindowUpdate item id -> stream id
	nextID := 0
	var idMu sync.Mutex
	newItem := func(kind int) (cbItem, int) {
		idMu.Lock()
		defer idMu.Unlock()
		nextID++
		id := nextID
		var it cbItem
		switch kind {
		case 0:
			it = &ping{data: [8]byte{byte(id)}}
		case 4:
			// stream ids come from a pool of two, so that runs of consecutive updates for one stream occur (an
			// implementation may legitimately coalesce such a run; the model below follows the returned increment)
			sid := uint32(1001 + id%2)
			if id%5 == 0 {
				sid = 1001
			}
			streamOf[id] = sid
			it = &incomingWindowUpdate{streamID: sid, increment: 1}
		case 1:
			b := make([]byte, 2048) // above the pooling threshold, so that Free is observable
			bufOf[id] = &b
			it = &dataFrame{streamID: uint32(id), data: mem.BufferSlice{mem.NewBuffer(&b, pool)}}
		case 5, 6:
			// a throttled item that goes through executeAndPut (as the transports do with outgoingSettings and
			// earlyAbortStream); with kind 5 the callback rejects it
			it = &outgoingSettings{}
		default:
			it = &clientHeaders{streamID: uint32(id), onOrphaned: func(err error) {
				mu.Lock()
				orphans[id]++
				orphanErrs[id] = err
				mu.Unlock()
				maybeYield("orphan.callback")
			}}
		}
		itemOf[it] = id
		kindOf[id] = kind
		return it, id
	}

	c := sched.New(p.Sched)
	defer c.Close()
	// Cleanup callbacks (onOrphaned, buffer Free) are yield points whenever they run without the control
	// buffer's mutex: exactly one worker runs at a time, so TryLock fails iff the caller itself holds it
	// (parking a worker that holds the mutex would hang the bubble).
	maybeYieldFn = func(point string) {
		if cb.mu.TryLock() {
			cb.mu.Unlock()
			classes0["cleanup_callback_outside_mutex"] = true
			c.Yield(point)
		}
	}
	pool.onEvent = func() { maybeYield("pool.put") }
	doneClosed := false
	closeDone := func() {
		if !doneClosed {
			doneClosed = true
			close(done)
		}
	}
	defer func() {
		closeDone()
		c.Kill()
	}()

	doPut := func(w, kind int) {
		it, id := newItem(kind)
		var ok bool
		var err error
		switch kind {
		case 2:
			ok, err = cb.executeAndPut(func() bool { return true }, it)
		case 3, 5:
			ok, err = cb.executeAndPut(func() bool { return false }, it)
		case 6:
			ok, err = cb.executeAndPut(func() bool { return true }, it)
		default:
			err = cb.put(it)
			ok = err == nil
		}
		logEv(vfC16Event{worker: w, kind: "putDone", item: id, ok: ok, err: err})
	}
	c.Go(vfC16Consumer, func() {
		for _, b := range p.Cons {
			c.Yield("op")
			got, err := cb.get(b == 1)
			logEv(vfC16Event{worker: vfC16Consumer, kind: "getDone", block: b == 1, got: got, err: err})
			if err != nil {
				break // loopy exits on error
			}
		}
		if p.Finish == 2 {
			c.Yield("op")
			logEv(vfC16Event{worker: vfC16Consumer, kind: "finishStart"})
			cb.finish()
			logEv(vfC16Event{worker: vfC16Consumer, kind: "finishDone"})
		}
	})
	for i, ops := range p.Prod {
		w := vfC16Producer0 + i
		ops := ops
		c.Go(w, func() {
			for _, k := range ops {
				c.Yield("op")
				doPut(w, k)
			}
		})
	}
	for i, ops := range p.Readers {
		w := vfC16Reader0 + i
		ops := ops
		c.Go(w, func() {
			for _, k := range ops {
				c.Yield("op")
				logEv(vfC16Event{worker: w, kind: "thrStart"})
				cb.throttle()
				logEv(vfC16Event{worker: w, kind: "thrDone"})
				if k == 1 {
					c.Yield("op")
					doPut(w, 0)
				}
			}
		})
	}
	if p.Finish == 1 {
		c.Go(vfC16Finisher, func() {
			c.Yield("op")
			logEv(vfC16Event{worker: vfC16Finisher, kind: "finishStart"})
			cb.finish()
			logEv(vfC16Event{worker: vfC16Finisher, kind: "finishDone"})
		})
	}
	if p.Close {
		c.Go(vfC16Closer, func() {
			c.Yield("op")
			mu.Lock()
			doneClosed = true
			mu.Unlock()
			close(done)
			logEv(vfC16Event{worker: vfC16Closer, kind: "closeDone"})
		})
	}

	// ---- reference model ----
	var queue []vfC16ModelItem
	count := 0
	closed := false
	finishing := 0 // finish calls that have started and not returned: the close takes effect somewhere in between
	mDone := false
	expOrphans := map[int]int{}
	expFrees := map[int]int{}
	inThrottle := map[int]bool{}
	condSince := map[int]bool{}
	sawBlocked := map[int]bool{} // reader was durably blocked during its current throttle call
	cond := func() bool { return count < p.Limit || closed || mDone }
	classes := map[string]bool{}
	ups, downs, releasedByDrop := 0, 0, 0
	steps := 0
	processed := 0

	apply := func(e vfC16Event) string {
		switch e.kind {
		case "putDone":
			kind := kindOf[e.item]
			switch {
			case !closed && finishing > 0 && !e.ok && e.err == ErrConnClosing:
				// the put raced with a finish in progress and was rejected: the close had already taken effect
				classes["put_rejected_during_finish"] = true
			case closed:
				if e.ok || e.err != ErrConnClosing {
					return fmt.Sprintf("put of item %d (kind %d) after finish returned (%v, %v), want (false, ErrConnClosing)", e.item, kind, e.ok, e.err)
				}
				classes["put_after_finish"] = true
			case kind == 3 || kind == 5:
				if kind == 5 {
					classes["throttled_item_rejected_by_callback"] = true
					if count == p.Limit-1 {
						classes["throttled_item_rejected_at_limit_minus_1"] = true
					}
				}
				if e.ok || e.err != nil {
					return fmt.Sprintf("executeAndPut with failing callback returned (%v, %v), want (false, nil)", e.ok, e.err)
				}
			default:
				if !e.ok || e.err != nil {
					return fmt.Sprintf("put of item %d on an open control buffer returned (%v, %v)", e.item, e.ok, e.err)
				}
				thr := kind == 0 || kind == 4 || kind == 6
				queue = append(queue, vfC16ModelItem{id: e.item, throttled: thr, kind: kind})
				if thr {
					count++
					if count == p.Limit {
						ups++
					}
				}
			}
		case "getDone":
			switch {
			case e.err != nil && e.err == ErrConnClosing:
				if !closed && finishing == 0 {
					return fmt.Sprintf("get returned ErrConnClosing but finish has not been called")
				}
			case e.err != nil:
				// "transport closed by client": only from the blocking wait, only when done is closed
				if !e.block || !mDone {
					return fmt.Sprintf("get(block=%v) returned %v although done is not closed", e.block, e.err)
				}
				classes["get_done_closed"] = true
			case closed:
				return fmt.Sprintf("get returned item %v after finish, want ErrConnClosing", e.got)
			case e.got == nil:
				if e.block {
					return "get(true) returned (nil, nil)"
				}
				if len(queue) != 0 {
					return fmt.Sprintf("get(false) returned nothing although %d items are queued", len(queue))
				}
			default:
				id, known := itemOf[e.got]
				if !known {
					return fmt.Sprintf("get returned an unknown item %T", e.got)
				}
				if len(queue) == 0 || queue[0].id != id {
					return fmt.Sprintf("get returned item %d but the model queue is %v (FIFO violated / item lost or duplicated)", id, queue)
				}
				if queue[0].throttled {
					if count == p.Limit {
						downs++
					}
					count--
				}
				queue = queue[1:]
				// A returned WINDOW_UPDATE may stand for a run of consecutive queued updates of the same stream
				// (coalescing keeps the wire semantics): its increment says how many, all of them leave the queue.
				if wu, ok := e.got.(*incomingWindowUpdate); ok {
					folded := int(wu.increment) - 1
					for folded > 0 {
						if len(queue) == 0 || queue[0].kind != 4 || streamOf[queue[0].id] != wu.streamID {
							return fmt.Sprintf("get returned WINDOW_UPDATE(stream %d, increment %d) but only %d such updates were queued consecutively at the head (credit invented)", wu.streamID, wu.increment, int(wu.increment)-folded)
						}
						if count == p.Limit {
							downs++
						}
						count--
						queue = queue[1:]
						folded--
						classes["window_updates_coalesced"] = true
					}
					if wu.increment == 0 {
						return fmt.Sprintf("get returned WINDOW_UPDATE(stream %d) with increment 0", wu.streamID)
					}
				}
			}
		case "finishStart":
			finishing++
		case "finishDone":
			finishing--
			if !closed {
				closed = true
				for _, it := range queue {
					if it.kind == 2 {
						expOrphans[it.id]++
					}
					if it.kind == 1 {
						expFrees[it.id]++
					}
				}
				for r := range inThrottle {
					if inThrottle[r] && sawBlocked[r] {
						classes["finish_while_reader_blocked"] = true
					}
				}
				queue = nil
			}
		case "closeDone":
			mDone = true
			for r := range inThrottle {
				if inThrottle[r] && sawBlocked[r] {
					classes["done_while_reader_blocked"] = true
				}
			}
		case "thrStart":
			inThrottle[e.worker] = true
			condSince[e.worker] = cond()
			sawBlocked[e.worker] = false
		case "thrDone":
			// (the state-changing events of this step were applied before)
			if cond() {
				condSince[e.worker] = true
			}
			if !condSince[e.worker] {
				return fmt.Sprintf("reader %d returned from throttle although at least %d (limit) throttled items were queued during the whole call (now %d), and the buffer is neither finished nor done", e.worker, p.Limit, count)
			}
			if sawBlocked[e.worker] && !closed && !mDone {
				releasedByDrop++
			}
			inThrottle[e.worker] = false
		}
		if cond() {
			for r, in := range inThrottle {
				if in {
					condSince[r] = true
				}
			}
		}
		return ""
	}

	finish := func(r vk.Result) vk.Result {
		for k := range classes0 {
			classes[k] = true
		}
		for k := range classes {
			r.Classes = append(r.Classes, k)
		}
		sort.Strings(r.Classes)
		r.Steps = steps
		return r
	}
	// drain applies the completion records produced by the last step: those of
	// the released worker first (its operation took effect before the
	// operations of the goroutines it woke up), then by worker id.
	drain := func(first int) string {
		mu.Lock()
		evs := append([]vfC16Event(nil), events[processed:]...)
		processed = len(events)
		mu.Unlock()
		sort.SliceStable(evs, func(i, j int) bool {
			a, b := evs[i].worker, evs[j].worker
			if (a == first) != (b == first) {
				return a == first
			}
			return a < b
		})
		for _, e := range evs {
			if m := apply(e); m != "" {
				return m
			}
		}
		return ""
	}
	// quiescent evaluates the blocking oracle.
	quiescent := func() string {
		for i := range p.Readers {
			r := vfC16Reader0 + i
			st, _ := c.State(r)
			if inThrottle[r] && st == sched.Running {
				if cond() {
					return fmt.Sprintf("reader %d is blocked in throttle although queued throttled items=%d < limit=%d, or finished=%v, or done=%v", r, count, p.Limit, closed, mDone)
				}
				sawBlocked[r] = true
				classes["reader_blocked"] = true
			}
		}
		return ""
	}

	for {
		var preReaderAtLoad bool
		for i := range p.Readers {
			if st, pt := c.State(vfC16Reader0 + i); st == sched.Parked && pt == "cbuf.throttle.afterLoad" {
				preReaderAtLoad = true
			}
		}
		preCond := cond()
		st := c.Step()
		switch st.Kind {
		case sched.Released:
			steps++
			if m := drain(st.Worker); m != "" {
				return finish(vk.Bad("%s", m))
			}
			if preReaderAtLoad && !preCond && cond() {
				classes["released_between_load_and_wait"] = true
			}
			if m := quiescent(); m != "" {
				return finish(vk.Bad("%s", m))
			}
			continue
		case sched.Panicked:
			return finish(vk.Bad("panic: %s", st.Panic))
		case sched.Overrun:
			return finish(vk.Bad("harness: step limit exceeded"))
		case sched.Stuck:
			if m := drain(-1); m != "" {
				return finish(vk.Bad("%s", m))
			}
			if m := quiescent(); m != "" {
				return finish(vk.Bad("%s", m))
			}
			for _, w := range st.Blocked {
				switch {
				case w == vfC16Consumer:
					// blocked in get(true): legitimate only while nothing is queued (or after finish, which does not wake the consumer)
					if !closed && len(queue) > 0 {
						return finish(vk.Bad("lost wake-up: consumer blocked in get(true) although %d items are queued and nobody else can move", len(queue)))
					}
					classes["consumer_blocked_empty"] = true
				case w >= vfC16Reader0 && w < vfC16Reader0+len(p.Readers):
				default:
					return finish(vk.Bad("harness: worker %d blocked unexpectedly", w))
				}
			}
			if mDone {
				return finish(vk.Bad("workers %v still blocked although done is closed", st.Blocked))
			}
			// Everything that is blocked is blocked legitimately: close the transport.
			classes["forced_done"] = true
			closeDone()
			mDone = true
			for r := range inThrottle {
				if inThrottle[r] {
					condSince[r] = true
				}
			}
			continue
		case sched.Done:
			if m := drain(-1); m != "" {
				return finish(vk.Bad("%s", m))
			}
		}
		break
	}

	// close releases everything: stream-creation requests queued at finish are failed exactly once, with ErrConnClosing.
	mu.Lock()
	defer mu.Unlock()
	for id := 1; id <= nextID; id++ {
		kind := kindOf[id]
		if kind == 2 || kind == 3 {
			if orphans[id] != expOrphans[id] {
				return finish(vk.Bad("clientHeaders %d: onOrphaned called %d times, want %d (queued at finish: %v)", id, orphans[id], expOrphans[id], expOrphans[id] == 1))
			}
			if orphans[id] > 0 && orphanErrs[id] != ErrConnClosing {
				return finish(vk.Bad("clientHeaders %d orphaned with %v, want ErrConnClosing", id, orphanErrs[id]))
			}
		}
		if kind == 1 {
			pool.mu.Lock()
			n := pool.puts[bufOf[id]]
			pool.mu.Unlock()
			if n != expFrees[id] {
				return finish(vk.Bad("dataFrame %d: buffer freed %d times by the control buffer, want %d", id, n, expFrees[id]))
			}
		}
	}
	if len(expOrphans) > 0 {
		classes["orphaned_headers"] = true
	}
	if len(expFrees) > 0 {
		classes["freed_data"] = true
	}
	if closed {
		classes["finished"] = true
	}
	if ups >= 2 && downs >= 2 {
		classes["crossed_twice_each_way"] = true
	}
	if releasedByDrop > 0 {
		classes["blocked_reader_released_by_get"] = true
	}
	return finish(vk.Result{NonTrivial: releasedByDrop > 0 && ups >= 1 && downs >= 1})
}

func TestVerifC16ControlBuf(t *testing.T) {
	vk.Check(t, vk.Unit[vfC16Plan]{
		ID: "C16", Name: "cbuf",
		Rule: "real controlBuffer with maxQueuedControlBufferItems 1..3 (thorough 1..8); workers: consumer (get blocking/non-blocking, optionally finish at exit), 1-2 producers (throttled items, dataFrames, clientHeaders via executeAndPut with succeeding/failing callback), 1-2 readers (throttle, optionally followed by a throttled put), optional finisher and closer of done; interleaved at cbuf.throttle.afterLoad / cbuf.put.beforeLock / cbuf.get.beforeWait and operation starts by a generated schedule; non-trivial = the count of queued throttled items reached the limit and dropped below it again, and a reader that was durably blocked in throttle was released by that drop",
		Gen:  vfC16Gen, Run: vfC16Run,
	})
}
