package transport

// C03: a stream with queued data, positive stream window and positive
// connection window is always eventually written (no stream is left waiting
// after the peer granted credit by WINDOW_UPDATE or by raising
// SETTINGS_INITIAL_WINDOW_SIZE); streams with pending data are served
// round-robin.
//
// Single-goroutine driver of the real loopyWriter: the plan is the order of
// control items; after each item the driver calls processData the way run()
// does. Everything loopy writes goes to a bytes.Buffer and is decoded by an
// independent golang.org/x/net/http2.Framer; the reference model (peer's view
// of the windows, bytes queued per stream) is computed from the fed items and
// the decoded frames only.

import (
	"bytes"
	"fmt"
	"io"
	"sort"
	"testing"

	"golang.org/x/net/http2"
	"golang.org/x/net/http2/hpack"
	"google.golang.org/grpc/internal/verifkit/sched"
	"google.golang.org/grpc/internal/verifkit/vk"
	"google.golang.org/grpc/mem"
	"pgregory.net/rapid"
)

const (
	vfC03Open     = 0 // new stream (registerStream on the server, clientHeaders on the client)
	vfC03Data     = 1 // dataFrame: 5-byte header + N bytes on stream S (End: client half-close with the message)
	vfC03StreamWU = 2 // incomingWindowUpdate for stream S
	vfC03ConnWU   = 3 // incomingWindowUpdate for the connection
	vfC03Settings = 4 // incomingSettings{INITIAL_WINDOW_SIZE}
	vfC03Cleanup  = 5 // cleanupStream for stream S (End: with RST_STREAM)
	vfC03Finish   = 6 // server: trailers (serverHeaders endStream + cleanup); client: empty dataFrame with endStream
	vfC03Headers  = 7 // server: response headers (serverHeaders, not endStream); client: no-op
	vfC03MaxWin   = 1<<31 - 1
)

// vfC03Op is one control item. Operands are relative:
//
//	S: index into the list of streams opened so far (mod its length).
//	N for window updates: > 0 literal increment (clamped to what a conforming
//	  peer may send); <= 0: bring the window to exactly -N+(-1).. i.e.
//	  N=0 -> window 1, N=-1 -> window 0, N=-2 -> window -1 (only possible when
//	  the window is more negative), N=-3 -> the largest legal increment.
//	N for settings: >= 0 literal value; < 0 relative to the bytes outstanding on
//	  stream S: value = outstanding + (-N - 3)  (N=-1: window -2 ... N=-3: window 0, N=-4: window 1 ...).
//	P: processData calls after the item: < 0 until it reports empty (run() when
//	  no further item is queued), else exactly P+1 calls (a next item arrived).
type vfC03Op struct {
	K   int   `json:"k"`
	S   int   `json:"s"`
	N   int64 `json:"n"`
	End bool  `json:"end,omitempty"`
	P   int   `json:"p"`
}

type vfC03Plan struct {
	Server         bool      `json:"server"`
	Ops            []vfC03Op `json:"ops"`
	FinalBySetting bool      `json:"final_by_setting"` // final credit is granted by raising INITIAL_WINDOW_SIZE instead of WINDOW_UPDATEs
}

func vfC03Gen(rt *rapid.T) vfC03Plan {
	p := vfC03Plan{Server: rapid.Bool().Draw(rt, "server"), FinalBySetting: rapid.Bool().Draw(rt, "final_by_setting")}
	maxOps := vk.Pick(40, 300)
	maxStreams := vk.Pick(4, 12)
	n := sched.Uniform(rt, "nops", 4, maxOps)
	pcalls := func() int {
		if sched.Uniform(rt, "p_fix", 0, 9) < 6 {
			return -1
		}
		return sched.Uniform(rt, "p", 0, 2)
	}
	// Usually start with a small initial window so that short messages exhaust it.
	if sched.Uniform(rt, "small_iws", 0, 9) < 8 {
		p.Ops = append(p.Ops, vfC03Op{K: vfC03Settings, N: int64(sched.Uniform(rt, "iws0", 0, 40)), P: -1})
	}
	p.Ops = append(p.Ops, vfC03Op{K: vfC03Open, P: -1})
	streams := 1
	for len(p.Ops) < n {
		op := vfC03Op{S: sched.Uniform(rt, "s", 0, maxStreams-1), P: pcalls()}
		switch k := sched.Uniform(rt, "kind", 0, 99); {
		case k < 8:
			if streams >= maxStreams {
				continue
			}
			streams++
			op.K = vfC03Open
		case k < 45:
			op.K = vfC03Data
			switch sched.Uniform(rt, "size_kind", 0, 19) {
			case 0:
				op.N = 0
			case 1:
				op.N = int64(rapid.SampledFrom([]int{http2MaxFrameLen - 6, http2MaxFrameLen - 5, http2MaxFrameLen - 4, http2MaxFrameLen, 2*http2MaxFrameLen + 1}).Draw(rt, "frame_size"))
			case 2, 3:
				op.N = int64(sched.Uniform(rt, "big", 30000, 70000))
			default:
				op.N = int64(sched.Uniform(rt, "size", 1, 60))
			}
			op.End = sched.Uniform(rt, "end", 0, 11) == 0
		case k < 65:
			op.K = vfC03StreamWU
			switch sched.Uniform(rt, "wu_kind", 0, 9) {
			case 0, 1:
				op.N = 0 // window -> 1
			case 2, 3:
				op.N = -1 // window -> 0
			case 4:
				op.N = -2 // window -> -1
			case 5:
				op.N = -3 // max
			default:
				op.N = int64(sched.Uniform(rt, "inc", 1, 80))
			}
		case k < 72:
			op.K = vfC03ConnWU
			switch sched.Uniform(rt, "cwu_kind", 0, 5) {
			case 0:
				op.N = 0
			case 1:
				op.N = -3
			default:
				op.N = int64(sched.Uniform(rt, "cinc", 1, 40000))
			}
		case k < 88:
			op.K = vfC03Settings
			switch sched.Uniform(rt, "set_kind", 0, 9) {
			case 0:
				op.N = int64(rapid.SampledFrom([]int64{0, 1, 65535, 1 << 20, vfC03MaxWin}).Draw(rt, "iws_special"))
			case 1, 2, 3, 4:
				op.N = -int64(sched.Uniform(rt, "iws_rel", 1, 8)) // around the bytes outstanding on stream S
			default:
				op.N = int64(sched.Uniform(rt, "iws", 0, 120))
			}
		case k < 92:
			op.K = vfC03Cleanup
			op.End = rapid.Bool().Draw(rt, "rst")
		case k < 96:
			op.K = vfC03Finish
		default:
			op.K = vfC03Headers
		}
		p.Ops = append(p.Ops, op)
	}
	return p
}

type vfC03Stream struct {
	id       uint32
	open     bool  // known to loopy (between open and cleanup / trailers written)
	ended    bool  // the application may not write any more (half-closed / trailers queued)
	fed      int64 // bytes accepted into loopy
	sent     int64 // bytes seen in DATA frames
	wu       int64 // window update increments received
	items    int   // queued items that are not bytes (empty frames, trailers)
	eligible int64 // tick since which the stream has continuously had bytes queued and window > 0; -1 if not
	lastData int64 // tick of its last DATA frame; -1 if none
	parked   bool  // was seen with bytes queued and window <= 0
	lastCred string
}

func vfC03Byte(id uint32, pos int64) byte { return byte(pos*7 + int64(id)*13 + pos>>8) }

func vfC03Run(_ *testing.T, p vfC03Plan) vk.Result {
	if len(p.Ops) > 2000 {
		return vk.Result{Discard: true}
	}
	var wire bytes.Buffer
	side := clientSide
	if p.Server {
		side = serverSide
	}
	fr := newFramer(&wire, 0, 0, false, 0, mem.DefaultBufferPool())
	done := make(chan struct{})
	defer close(done)
	cbuf := newControlBuffer(done)
	l := newLoopyWriter(side, fr, cbuf, nil, nil, nil, nil, mem.DefaultBufferPool())
	dec := http2.NewFramer(io.Discard, &wire)
	dec.SetMaxReadFrameSize(1<<24 - 1)

	var streams []*vfC03Stream
	byID := map[uint32]*vfC03Stream{}
	iws := int64(defaultWindowSize)
	connWin := int64(defaultWindowSize)
	tick := int64(0)
	classes := map[string]bool{}
	reactivated := false
	steps := 0
	win := func(s *vfC03Stream) int64 { return iws - (s.sent - s.wu) }
	pending := func(s *vfC03Stream) int64 { return s.fed - s.sent }
	isEligible := func(s *vfC03Stream) bool { return s.open && pending(s) > 0 && win(s) > 0 }
	refresh := func() {
		for _, s := range streams {
			if isEligible(s) {
				if s.eligible < 0 {
					s.eligible = tick
				}
			} else {
				s.eligible = -1
			}
			if s.open && pending(s) > 0 && win(s) <= 0 {
				s.parked = true
			}
		}
	}
	finish := func(r vk.Result) vk.Result {
		for k := range classes {
			r.Classes = append(r.Classes, k)
		}
		sort.Strings(r.Classes)
		r.Steps = steps
		return r
	}

	// decode consumes everything loopy wrote and updates the model.
	decode := func() string {
		for wire.Len() > 0 {
			f, err := dec.ReadFrame()
			if err != nil {
				return fmt.Sprintf("independent decoder cannot read what loopy wrote: %v", err)
			}
			tick++
			switch f := f.(type) {
			case *http2.DataFrame:
				s := byID[f.StreamID]
				if s == nil {
					return fmt.Sprintf("DATA on unknown stream %d", f.StreamID)
				}
				data := f.Data()
				n := int64(len(data))
				if n > http2MaxFrameLen || n > connWin || (n > 0 && n > win(s)) {
					return fmt.Sprintf("DATA of %d bytes on stream %d exceeds frame size/windows (conn %d, stream %d) [C01 territory, invalidates the model]", n, s.id, connWin, win(s))
				}
				if n > pending(s) {
					return fmt.Sprintf("DATA of %d bytes on stream %d but only %d bytes are queued", n, s.id, pending(s))
				}
				for i, b := range data {
					if b != vfC03Byte(s.id, s.sent+int64(i)) {
						return fmt.Sprintf("DATA on stream %d: byte %d differs from what was queued", s.id, s.sent+int64(i))
					}
				}
				// Round-robin: every other stream that has been eligible since
				// before this stream's previous DATA frame must have sent since.
				if s.lastData >= 0 {
					for _, o := range streams {
						if o != s && o.eligible >= 0 && o.eligible < s.lastData && o.lastData < s.lastData {
							return fmt.Sprintf("round-robin violated: stream %d sent two DATA frames (ticks %d and %d) while stream %d, continuously eligible since tick %d (queued %d, window %d), sent nothing in between (its last DATA: tick %d)", s.id, s.lastData, tick, o.id, o.eligible, pending(o), win(o), o.lastData)
						}
					}
				}
				if n > 0 && s.parked {
					s.parked = false
					reactivated = true
					classes["reactivated_by_"+s.lastCred] = true
				}
				if n == 0 {
					s.items--
					classes["empty_data_frame"] = true
				}
				s.sent += n
				connWin -= n
				s.lastData = tick
			case *http2.HeadersFrame:
				if s := byID[f.StreamID]; s != nil && p.Server && f.StreamEnded() {
					s.open = false // trailers written: loopy cleaned the stream up
					s.items--
					if pending(s) > 0 {
						return fmt.Sprintf("trailers of stream %d written while %d data bytes are still queued", s.id, pending(s))
					}
				}
			}
			refresh()
		}
		return ""
	}
	// fixpoint: loopy reported "nothing to do". The liveness oracle.
	fixpoint := func(where string) string {
		for _, s := range streams {
			if s.open && pending(s) > 0 {
				if win(s) > 0 && connWin > 0 {
					return fmt.Sprintf("%s: loopy is idle but stream %d has %d bytes queued, stream window %d > 0 and connection window %d > 0", where, s.id, pending(s), win(s), connWin)
				}
				if connWin == 0 {
					classes["blocked_on_connection_window"] = true
				}
				if win(s) <= 0 {
					classes["blocked_on_stream_window"] = true
				}
			}
		}
		return ""
	}
	pump := func(calls int, where string) string {
		for i := 0; calls < 0 || i <= calls; i++ {
			empty, err := l.processData()
			if err != nil {
				return fmt.Sprintf("%s: processData: %v", where, err)
			}
			steps++
			if m := decode(); m != "" {
				return where + ": " + m
			}
			if empty {
				return fixpoint(where)
			}
			if i > 1<<20 {
				return where + ": processData never reports empty"
			}
		}
		classes["item_arrived_mid_burst"] = true
		return ""
	}
	feed := func(it any, where string) string {
		if err := l.handle(it); err != nil {
			return fmt.Sprintf("%s: handle(%T): %v", where, it, err)
		}
		tick++
		if m := decode(); m != "" {
			return where + ": " + m
		}
		refresh()
		return ""
	}
	// increment a conforming peer may send to bring a window w to the target described by n.
	resolveInc := func(w, n int64) int64 {
		var inc int64
		switch {
		case n > 0:
			inc = n
		case n == -3:
			inc = vfC03MaxWin - w
		default: // target window 1, 0, -1
			inc = (n + 1) - w
		}
		if inc > vfC03MaxWin-w {
			inc = vfC03MaxWin - w
		}
		if inc > vfC03MaxWin {
			inc = vfC03MaxWin
		}
		return inc // < 1: not sendable
	}
	newWQ := func() *writeQuota {
		wq := &writeQuota{}
		wq.init(vfC03MaxWin, done)
		return wq
	}
	nextID := uint32(1)
	setIWS := func(v int64, where string) string {
		// a conforming peer never raises a stream window above 2^31-1
		for _, s := range streams {
			if s.open {
				if max := vfC03MaxWin + (s.sent - s.wu); v > max {
					v = max
				}
			}
		}
		if v < 0 {
			v = 0
		}
		if v > vfC03MaxWin {
			v = vfC03MaxWin
		}
		old := iws
		iws = v
		for _, s := range streams {
			if s.open && pending(s) > 0 {
				if v > old {
					s.lastCred = "settings"
				}
				if win(s) < 0 {
					classes["settings_lowered_window_below_zero"] = true
				}
			}
		}
		if m := feed(&incomingSettings{ss: []http2.Setting{{ID: http2.SettingInitialWindowSize, Val: uint32(v)}}}, where); m != "" {
			return m
		}
		return ""
	}

	exec := func(i int, op vfC03Op) string {
		where := fmt.Sprintf("op %d %+v", i, op)
		var s *vfC03Stream
		if len(streams) > 0 {
			k := op.S % len(streams)
			if k < 0 {
				k += len(streams)
			}
			s = streams[k]
		}
		switch op.K {
		case vfC03Open:
			if len(streams) >= 64 {
				return ""
			}
			ns := &vfC03Stream{id: nextID, open: true, eligible: -1, lastData: -1}
			nextID += 2
			streams = append(streams, ns)
			byID[ns.id] = ns
			var it any
			if p.Server {
				it = &registerStream{streamID: ns.id, wq: newWQ()}
			} else {
				it = &clientHeaders{streamID: ns.id, hf: []hpack.HeaderField{{Name: ":method", Value: "POST"}}, initStream: func(uint32) error { return nil }, onWrite: func() {}, wq: newWQ(), onOrphaned: func(error) {}}
			}
			if m := feed(it, where); m != "" {
				return m
			}
		case vfC03Data:
			if s == nil || s.ended || op.N < 0 || op.N > 1<<20 {
				return ""
			}
			total := 5 + op.N
			buf := make([]byte, total)
			for j := range buf {
				buf[j] = vfC03Byte(s.id, s.fed+int64(j))
			}
			df := &dataFrame{streamID: s.id, h: buf[:5], data: mem.BufferSlice{mem.SliceBuffer(buf[5:])}, onEachWrite: func() {}}
			if !p.Server && op.End {
				df.endStream = true
				s.ended = true
			}
			if s.open {
				if pending(s) > 0 && win(s) <= 0 {
					classes["data_while_waiting"] = true
				}
				s.fed += total
			} else {
				classes["data_for_closed_stream"] = true
			}
			if m := feed(df, where); m != "" {
				return m
			}
		case vfC03StreamWU:
			if s == nil {
				return ""
			}
			inc := resolveInc(win(s), op.N)
			if inc < 1 {
				return ""
			}
			if s.open {
				switch {
				case pending(s) > 0 && win(s) > 0:
					classes["update_before_wait"] = true
				case pending(s) == 0:
					classes["update_while_empty"] = true
				case win(s)+inc <= 0:
					classes["update_leaves_window_nonpositive"] = true
				case win(s) < 0:
					classes["update_from_negative_window"] = true
				}
				s.wu += inc
				s.lastCred = "window_update"
			} else {
				classes["update_for_closed_stream"] = true
			}
			if m := feed(&incomingWindowUpdate{streamID: s.id, increment: uint32(inc)}, where); m != "" {
				return m
			}
		case vfC03ConnWU:
			inc := resolveInc(connWin, op.N)
			if inc < 1 {
				return ""
			}
			connWin += inc
			if m := feed(&incomingWindowUpdate{streamID: 0, increment: uint32(inc)}, where); m != "" {
				return m
			}
		case vfC03Settings:
			v := op.N
			if v < 0 {
				if s == nil {
					return ""
				}
				v = (s.sent - s.wu) + (-op.N - 3)
			}
			if m := setIWS(v, where); m != "" {
				return m
			}
		case vfC03Cleanup:
			if s == nil {
				return ""
			}
			if s.open && pending(s) > 0 {
				classes["cleanup_with_data_queued"] = true
			}
			s.open = false
			if m := feed(&cleanupStream{streamID: s.id, rst: op.End, rstCode: http2.ErrCodeCancel, onWrite: func() {}}, where); m != "" {
				return m
			}
		case vfC03Finish:
			if s == nil || s.ended {
				return ""
			}
			s.ended = true
			if s.open {
				s.items++
				if pending(s) > 0 {
					classes["end_queued_behind_data"] = true
				}
			}
			var it any
			if p.Server {
				it = &serverHeaders{streamID: s.id, endStream: true, hf: []hpack.HeaderField{{Name: "grpc-status", Value: "0"}}, onWrite: func() {},
					cleanup: &cleanupStream{streamID: s.id, onWrite: func() {}}}
			} else {
				it = &dataFrame{streamID: s.id, endStream: true, onEachWrite: func() {}}
			}
			if m := feed(it, where); m != "" {
				return m
			}
		case vfC03Headers:
			if s == nil || !p.Server || s.ended {
				return ""
			}
			if m := feed(&serverHeaders{streamID: s.id, hf: []hpack.HeaderField{{Name: ":status", Value: "200"}}, onWrite: func() {}}, where); m != "" {
				return m
			}
		default:
			return ""
		}
		return pump(op.P, where)
	}

	for i, op := range p.Ops {
		if m := exec(i, op); m != "" {
			return finish(vk.Bad("%s", m))
		}
	}
	if m := pump(-1, "after the last op"); m != "" {
		return finish(vk.Bad("%s", m))
	}
	// Final credit: the peer grants enough window for everything that is still
	// queued; then everything must be written.
	var need int64
	for _, s := range streams {
		if s.open {
			need += pending(s)
		}
	}
	if need > 0 {
		classes["final_credit_needed"] = true
		if connWin < need {
			inc := resolveInc(connWin, need-connWin)
			connWin += inc
			if m := feed(&incomingWindowUpdate{streamID: 0, increment: uint32(inc)}, "final connection credit"); m != "" {
				return finish(vk.Bad("%s", m))
			}
			if m := pump(vfC03Calls(p.FinalBySetting), "final connection credit"); m != "" {
				return finish(vk.Bad("%s", m))
			}
		}
		if p.FinalBySetting {
			var v int64
			for _, s := range streams {
				if s.open && pending(s) > 0 {
					if t := (s.sent - s.wu) + pending(s); t > v {
						v = t
					}
				}
			}
			if v > iws {
				if m := setIWS(v, "final settings credit"); m != "" {
					return finish(vk.Bad("%s", m))
				}
				if m := pump(-1, "final settings credit"); m != "" {
					return finish(vk.Bad("%s", m))
				}
			}
		}
		for _, s := range streams {
			if s.open && pending(s) > win(s) {
				inc := resolveInc(win(s), pending(s)-win(s))
				if inc < 1 {
					continue
				}
				s.wu += inc
				s.lastCred = "window_update"
				if m := feed(&incomingWindowUpdate{streamID: s.id, increment: uint32(inc)}, "final stream credit"); m != "" {
					return finish(vk.Bad("%s", m))
				}
				if m := pump(0, "final stream credit"); m != "" {
					return finish(vk.Bad("%s", m))
				}
			}
		}
		if m := pump(-1, "after final credit"); m != "" {
			return finish(vk.Bad("%s", m))
		}
		for _, s := range streams {
			if s.open && pending(s) > 0 && win(s) >= pending(s) && connWin > 0 {
				return finish(vk.Bad("after final credit stream %d still has %d bytes queued (window %d, connection window %d)", s.id, pending(s), win(s), connWin))
			}
		}
	}
	if reactivated {
		classes["parked_then_reactivated"] = true
	}
	if len(streams) >= 3 {
		classes["streams>=3"] = true
	}
	return finish(vk.Result{NonTrivial: reactivated})
}

func vfC03Calls(b bool) int {
	if b {
		return 0
	}
	return -1
}

func TestVerifC03Loopy(t *testing.T) {
	vk.Check(t, vk.Unit[vfC03Plan]{
		ID: "C03", Name: "loopy",
		Rule: "real loopyWriter (client or server side) driven on one goroutine over an in-memory framer; plan = order of control items {open stream, dataFrame 0..70000 bytes, stream/connection WINDOW_UPDATE (literal or bringing the window to 1/0/-1/max), SETTINGS_INITIAL_WINDOW_SIZE (literal 0..2^31-1 or around the bytes outstanding on a stream), cleanupStream, trailers / half-close, headers}, each followed by processData until empty or by 1-3 calls (next item arrives mid-burst); usually starts with a small initial window; ends with the peer granting all needed credit; non-trivial = a stream was seen with bytes queued and window <= 0 and later sent data again",
		Gen:  vfC03Gen, Run: vfC03Run,
	})
}
