package transport

// C05: the bytes an application reads from a stream are exactly the DATA
// payload bytes received for it, in order, none lost or duplicated (also when
// many small frames are merged by receive-buffer compaction); end-of-stream or
// an error is reported only after all data that arrived before it, and nothing
// is delivered after it.
//
// Real recvBuffer + recvBufferReader (server flavour: clientStream == nil).
// The plan is an op-level interleaving of producer puts and reader calls; the
// reader runs on its own goroutine inside a synctest bubble and the driver
// waits for quiescence after every step, so the execution is deterministic
// even when a read blocks until a later put (channel hand-off path).

import (
	"context"
	"errors"
	"fmt"
	"io"
	"sort"
	"sync"
	"testing"
	"testing/synctest"

	"google.golang.org/grpc/internal/envconfig"
	"google.golang.org/grpc/internal/verifkit/sched"
	"google.golang.org/grpc/internal/verifkit/trackpool"
	"google.golang.org/grpc/internal/verifkit/vk"
	"google.golang.org/grpc/mem"
	"pgregory.net/rapid"
)

const (
	vfC05Put    = 0 // put one data message of N bytes (1..16384)
	vfC05Burst  = 1 // N puts of 1..M bytes each (sizes derived from the op index)
	vfC05EOF    = 2 // put io.EOF
	vfC05Err    = 3 // put a transport error
	vfC05Read   = 4 // Read(N)
	vfC05Header = 5 // ReadMessageHeader(make([]byte, N))
)

type vfC05Op struct {
	K int `json:"k"`
	N int `json:"n"`
	M int `json:"m,omitempty"`
}

type vfC05Plan struct {
	Compaction bool      `json:"compaction"` // envconfig.EnableReceiveBufferCompaction
	Blocking   bool      `json:"blocking"`   // reads may be issued while nothing is available (they block until a later put)
	Ops        []vfC05Op `json:"ops"`
}

var vfC05ErrTransport = errors.New("vfC05: transport failure")

func vfC05Gen(rt *rapid.T) vfC05Plan {
	p := vfC05Plan{Compaction: sched.Uniform(rt, "compaction", 0, 3) > 0, Blocking: rapid.Bool().Draw(rt, "blocking")}
	n := sched.Uniform(rt, "nops", 1, vk.Pick(60, 200))
	maxBurst := vk.Pick(1500, 2500)
	for i := 0; i < n; i++ {
		var op vfC05Op
		switch k := sched.Uniform(rt, "kind", 0, 99); {
		case k < 25:
			op.K = vfC05Put
			switch sched.Uniform(rt, "size_kind", 0, 9) {
			case 0:
				op.N = rapid.SampledFrom([]int{1023, 1024, 1025, 16384, 4096}).Draw(rt, "size_special")
			case 1:
				op.N = sched.Uniform(rt, "size_big", 100, 16384)
			default:
				op.N = sched.Uniform(rt, "size", 1, 120)
			}
		case k < 45:
			op.K = vfC05Burst
			if sched.Uniform(rt, "burst_kind", 0, 2) == 0 {
				op.N = sched.Uniform(rt, "burst_small", 1, 100)
			} else {
				op.N = sched.Uniform(rt, "burst", 100, maxBurst)
			}
			op.M = rapid.SampledFrom([]int{1, 2, 8, 30, 55, 56, 57, 100, 111, 112, 113, 200}).Draw(rt, "tiny_max")
		case k < 46:
			op.K = vfC05EOF
		case k < 47:
			op.K = vfC05Err
		case k < 85:
			op.K = vfC05Read
			switch sched.Uniform(rt, "n_kind", 0, 9) {
			case 0, 1:
				op.N = sched.Uniform(rt, "n_big", 1000, 70000)
			case 2:
				op.N = 1 << 30
			default:
				op.N = sched.Uniform(rt, "n", 1, 200)
			}
		default:
			op.K = vfC05Header
			if sched.Uniform(rt, "h5", 0, 2) > 0 {
				op.N = 5
			} else {
				op.N = sched.Uniform(rt, "hn", 1, 64)
			}
		}
		p.Ops = append(p.Ops, op)
	}
	return p
}

func vfC05Byte(pos int) byte { return byte(pos*31 + pos>>8 + pos>>16) }

// vfC05Tiny derives the size of the j-th message of the burst at op index i.
func vfC05Tiny(i, j, m int) int {
	x := uint32(i)*2654435761 + uint32(j)*40503 + 12345
	x ^= x >> 13
	x *= 1274126177
	x ^= x >> 16
	return 1 + int(x%uint32(m))
}

type vfC05Cmd struct {
	header bool
	n      int
}

type vfC05Res struct {
	cmd  vfC05Cmd
	data []byte     // bytes delivered (header reads: copy of header[:n])
	buf  mem.Buffer // Read: the returned buffer (freed by the driver after the comparison)
	err  error
}

func vfC05Run(t *testing.T, p vfC05Plan) vk.Result {
	total := 0
	for _, op := range p.Ops {
		switch op.K {
		case vfC05Put:
			if op.N < 1 || op.N > http2MaxFrameLen {
				return vk.Result{Discard: true}
			}
			total++
		case vfC05Burst:
			if op.N < 1 || op.N > 5000 || op.M < 1 || op.M > http2MaxFrameLen {
				return vk.Result{Discard: true}
			}
			total += op.N
		case vfC05Read, vfC05Header:
			if op.N < 1 || (op.K == vfC05Header && op.N > 1<<16) {
				return vk.Result{Discard: true}
			}
		}
	}
	if total > 200000 {
		return vk.Result{Discard: true}
	}
	var res vk.Result
	msg := vk.Bubble(t, func(t *testing.T) { res = vfC05Exec(p) })
	if res.Violation == "" && msg != "" {
		return vk.Bad("bubble did not drain: %s", msg)
	}
	return res
}

func vfC05Exec(p vfC05Plan) vk.Result {
	saved := envconfig.EnableReceiveBufferCompaction
	envconfig.EnableReceiveBufferCompaction = p.Compaction
	defer func() { envconfig.EnableReceiveBufferCompaction = saved }()

	pool := trackpool.New(trackpool.Options{Reuse: true})
	var rb recvBuffer
	rb.init(pool)
	rd := &recvBufferReader{ctx: context.Background(), recv: &rb} // ctxDone nil: never cancelled

	var mu sync.Mutex
	var results []vfC05Res
	cmds := make(chan vfC05Cmd, 1<<16)
	readerDone := make(chan struct{})
	go func() {
		defer close(readerDone)
		for c := range cmds {
			var r vfC05Res
			r.cmd = c
			if c.header {
				h := make([]byte, c.n)
				n, err := rd.ReadMessageHeader(h)
				r.data, r.err = h[:n], err
			} else {
				b, err := rd.Read(c.n)
				r.buf, r.err = b, err
				if b != nil {
					r.data = b.ReadOnlyData()
				}
			}
			mu.Lock()
			results = append(results, r)
			mu.Unlock()
		}
	}()
	// ---- model ----
	putBytes := 0      // data bytes put before the terminal
	var terminal error // the terminal put (nil: none yet)
	defer func() {
		// leave no goroutine behind (a blocked read is released by a terminal put)
		if terminal == nil {
			rb.put(recvMsg{err: io.EOF})
		}
		close(cmds)
		<-readerDone
	}()
	readPos := 0          // bytes delivered
	var readerErr error   // terminal error the reader has reported
	issued, checked := 0, 0
	classes := map[string]bool{}
	compactions := 0
	steps := 0

	finish := func(r vk.Result) vk.Result {
		for k := range classes {
			r.Classes = append(r.Classes, k)
		}
		sort.Strings(r.Classes)
		r.Steps = steps
		return r
	}
	check := func() string {
		mu.Lock()
		rs := append([]vfC05Res(nil), results[checked:]...)
		mu.Unlock()
		for _, r := range rs {
			checked++
			what := fmt.Sprintf("Read(%d)", r.cmd.n)
			if r.cmd.header {
				what = fmt.Sprintf("ReadMessageHeader(%d bytes)", r.cmd.n)
			}
			if r.err != nil {
				if len(r.data) != 0 {
					return fmt.Sprintf("%s returned %d bytes together with error %v", what, len(r.data), r.err)
				}
				if readerErr != nil {
					if r.err != readerErr {
						return fmt.Sprintf("%s returned %v after the reader had already reported %v", what, r.err, readerErr)
					}
					continue
				}
				if terminal == nil {
					return fmt.Sprintf("%s returned error %v but no end-of-stream/error was received", what, r.err)
				}
				if r.err != terminal {
					return fmt.Sprintf("%s returned error %v, want the received terminal %v", what, r.err, terminal)
				}
				if readPos != putBytes {
					return fmt.Sprintf("%s reported %v after %d of the %d data bytes received before it (data lost)", what, r.err, readPos, putBytes)
				}
				readerErr = r.err
				continue
			}
			if readerErr != nil {
				return fmt.Sprintf("%s delivered %d bytes after the reader had reported %v", what, len(r.data), readerErr)
			}
			n := len(r.data)
			if n == 0 {
				// not loss, duplication or reordering: counted, not asserted
				classes["empty_read"] = true
				continue
			}
			if n > r.cmd.n {
				return fmt.Sprintf("%s returned %d bytes", what, n)
			}
			if readPos+n > putBytes {
				return fmt.Sprintf("%s delivered %d bytes at offset %d but only %d bytes were received (invented/duplicated data)", what, n, readPos, putBytes)
			}
			for i, b := range r.data {
				if b != vfC05Byte(readPos+i) {
					return fmt.Sprintf("%s delivered a wrong byte at stream offset %d: got %#x want %#x (chunk of %d bytes at offset %d; lost, duplicated or reordered data)", what, readPos+i, b, vfC05Byte(readPos+i), n, readPos)
				}
			}
			readPos += n
			if r.buf != nil {
				r.buf.Free() // the application is done with it
			}
		}
		if v := pool.Violations(); len(v) > 0 {
			return "buffer pool misuse: " + v[0]
		}
		return ""
	}
	settle := func() string {
		if issued > checked { // a read is in flight: let it finish or block
			synctest.Wait()
		}
		return check()
	}
	putData := func(size int) string {
		if terminal != nil {
			classes["put_after_terminal"] = true
		}
		var b []byte
		if mem.IsBelowBufferPoolingThreshold(size) {
			b = make([]byte, size)
		} else {
			b = *pool.Get(size)
		}
		base := putBytes
		if terminal != nil {
			base = 1 << 20 // never delivered
		}
		for i := range b {
			b[i] = vfC05Byte(base + i)
		}
		bp := &b
		if terminal == nil {
			putBytes += size
		}
		gets, _, _ := pool.Stats()
		rb.put(recvMsg{buffer: mem.NewBuffer(bp, pool)})
		if g, _, _ := pool.Stats(); g > gets {
			compactions++
			if issued > checked {
				classes["compaction_with_blocked_reader"] = true
			} else if rd.last != nil { // no read in flight: safe to peek
				classes["compaction_with_partial_last"] = true
			}
		}
		steps++
		return settle()
	}
	putTerminal := func(err error) string {
		if terminal != nil {
			// A stream receives at most one terminal: the transports guard
			// closeStream / END_STREAM handling by the stream state. (A second
			// put(recvMsg{err}) dereferences the nil buffer - see notes/C05.md.)
			classes["second_terminal_skipped"] = true
			return ""
		}
		terminal = err
		if readPos < putBytes {
			classes["terminal_with_unread_data"] = true
		}
		rb.put(recvMsg{err: err})
		steps++
		return settle()
	}
	available := func() bool { return readPos < putBytes || terminal != nil || readerErr != nil }
	read := func(c vfC05Cmd) string {
		if !available() || issued > checked {
			// would block (or an earlier read is still blocked)
			if !p.Blocking {
				return ""
			}
			classes["blocking_read"] = true
		}
		issued++
		cmds <- c
		synctest.Wait()
		steps++
		return check()
	}

	for i, op := range p.Ops {
		var m string
		switch op.K {
		case vfC05Put:
			m = putData(op.N)
		case vfC05Burst:
			for j := 0; j < op.N && m == ""; j++ {
				m = putData(vfC05Tiny(i, j, op.M))
			}
		case vfC05EOF:
			m = putTerminal(io.EOF)
		case vfC05Err:
			m = putTerminal(vfC05ErrTransport)
		case vfC05Read:
			m = read(vfC05Cmd{n: op.N})
		case vfC05Header:
			m = read(vfC05Cmd{header: true, n: op.N})
		}
		if m != "" {
			return finish(vk.Bad("op %d %+v: %s", i, op, m))
		}
	}
	// Final phase: end the stream and read everything; all data must arrive, then the terminal.
	if terminal == nil {
		if m := putTerminal(io.EOF); m != "" {
			return finish(vk.Bad("final EOF: %s", m))
		}
	}
	for k := 0; readerErr == nil; k++ {
		if k > 1<<20 {
			return finish(vk.Bad("reader never reports the terminal (delivered %d of %d bytes)", readPos, putBytes))
		}
		if issued > checked {
			return finish(vk.Bad("a read is still blocked although the terminal %v was received (delivered %d of %d bytes)", terminal, readPos, putBytes))
		}
		c := vfC05Cmd{n: 1 + (k*7919)%5000}
		if k%3 == 2 {
			c = vfC05Cmd{header: true, n: 5}
		}
		issued++
		cmds <- c
		synctest.Wait()
		if m := check(); m != "" {
			return finish(vk.Bad("final drain: %s", m))
		}
	}
	if readPos != putBytes {
		return finish(vk.Bad("terminal reported after %d of %d bytes", readPos, putBytes))
	}
	// one more read after the terminal: must repeat the error
	issued++
	cmds <- vfC05Cmd{n: 10}
	synctest.Wait()
	if m := check(); m != "" {
		return finish(vk.Bad("read after terminal: %s", m))
	}
	pool.CheckPoison()
	if v := pool.Violations(); len(v) > 0 {
		return finish(vk.Bad("buffer pool misuse: %s", v[0]))
	}
	if out := pool.Outstanding(); len(out) > 0 {
		classes["pooled_buffer_not_released"] = true // not part of the statement; see notes
	}
	if p.Compaction {
		classes["compaction_enabled"] = true
	} else {
		classes["compaction_disabled"] = true
		if compactions > 0 {
			return finish(vk.Bad("compaction happened %d times although it is disabled", compactions))
		}
	}
	if compactions > 0 {
		classes["compaction"] = true
	}
	if compactions > 1 {
		classes["compaction>=2"] = true
	}
	return finish(vk.Result{NonTrivial: compactions > 0})
}

func TestVerifC05RecvBuffer(t *testing.T) {
	vk.Check(t, vk.Unit[vfC05Plan]{
		ID: "C05", Name: "recvbuf",
		Rule: "real recvBuffer+recvBufferReader; ops {put data 1..16384 bytes (pooled when >= 1 KiB), burst of 1..1500 puts of 1..M bytes (M in 1..200, around the 56-byte utilisation boundary), put io.EOF / transport error (at most one terminal per stream; data puts also after it), Read(n 1..2^30), ReadMessageHeader(1..64)}; compaction enabled in 75% of the cases; in half of the cases reads may block until a later put; every case ends with EOF and a full drain; non-trivial = at least one compaction happened",
		Gen:  vfC05Gen, Run: vfC05Run,
	})
}
