package transport

// C07: grpc-timeout encoding never shortens a deadline and always decodes.

import (
	"math"
	"regexp"
	"testing"
	"time"

	"google.golang.org/grpc/internal/grpcutil"
	"google.golang.org/grpc/internal/verifkit/vk"
	"pgregory.net/rapid"
)

type vfC07EncPlan struct {
	D int64 `json:"d"`
}

var vfC07Units = []int64{int64(time.Nanosecond), int64(time.Microsecond), int64(time.Millisecond), int64(time.Second), int64(time.Minute), int64(time.Hour)}

func vfC07UnitOf(b byte) (int64, bool) {
	switch b {
	case 'n':
		return 1, true
	case 'u':
		return 1e3, true
	case 'm':
		return 1e6, true
	case 'S':
		return 1e9, true
	case 'M':
		return 60e9, true
	case 'H':
		return 3600e9, true
	}
	return 0, false
}

var vfC07Re = regexp.MustCompile(`^[0-9]{1,8}[HMSmun]$`)

func vfC07GenDuration(rt *rapid.T) int64 {
	switch rapid.IntRange(0, 5).Draw(rt, "kind") {
	case 0: // unit boundary * k ± small
		u := rapid.SampledFrom(vfC07Units).Draw(rt, "unit")
		k := rapid.Int64Range(0, 100000001).Draw(rt, "k")
		delta := rapid.Int64Range(-2, 2).Draw(rt, "delta")
		hi, lo := mulOverflows(u, k)
		if hi {
			return math.MaxInt64 + delta*boolTo(delta < 0)
		}
		v := lo + delta
		if delta > 0 && v < lo {
			return math.MaxInt64
		}
		return v
	case 1: // around 10^8 * unit (where the encoder changes resolution)
		u := rapid.SampledFrom(vfC07Units).Draw(rt, "unit")
		delta := rapid.Int64Range(-3, 3).Draw(rt, "delta")
		hi, lo := mulOverflows(u, 99999999+rapid.Int64Range(0, 1).Draw(rt, "p"))
		if hi {
			return math.MaxInt64
		}
		return lo + delta
	case 2:
		return rapid.SampledFrom([]int64{0, 1, -1, math.MaxInt64, math.MaxInt64 - 1, math.MinInt64, math.MinInt64 + 1, 99999999, 100000000, 100000001}).Draw(rt, "special")
	case 3:
		return rapid.Int64().Draw(rt, "any")
	case 4: // uniform in magnitude
		bits := rapid.IntRange(0, 62).Draw(rt, "bits")
		return rapid.Int64Range(0, int64(1)<<uint(bits)).Draw(rt, "mag") + int64(1)<<uint(bits) - 1
	default:
		return rapid.Int64Range(1, math.MaxInt64).Draw(rt, "pos")
	}
}

func boolTo(b bool) int64 {
	if b {
		return 1
	}
	return 0
}

func mulOverflows(a, b int64) (bool, int64) {
	if a == 0 || b == 0 {
		return false, 0
	}
	c := a * b
	if c/b != a || c < 0 {
		return true, 0
	}
	return false, c
}

func vfC07RunEnc(_ *testing.T, p vfC07EncPlan) vk.Result {
	d := time.Duration(p.D)
	s := grpcutil.EncodeDuration(d)
	if !vfC07Re.MatchString(s) {
		return vk.Bad("EncodeDuration(%d) = %q is not 1-8 digits plus a unit", p.D, s)
	}
	got, err := decodeTimeout(s)
	if err != nil {
		return vk.Bad("EncodeDuration(%d) = %q does not decode: %v", p.D, s, err)
	}
	if got < 0 {
		return vk.Bad("decodeTimeout(%q) = %d is negative", s, got)
	}
	unit, _ := vfC07UnitOf(s[len(s)-1])
	res := vk.Result{Classes: []string{"unit_" + string(s[len(s)-1])}}
	if p.D <= 0 {
		res.Classes = append(res.Classes, "nonpositive")
		if got != 0 {
			return vk.Bad("non-positive duration %d encodes to %q which decodes to %d, want 0", p.D, s, got)
		}
		return res
	}
	// d <= d' < d + unit, saturating at MaxInt64.
	if int64(got) < p.D {
		return vk.Bad("deadline shortened: d=%d encoded %q decodes to %d", p.D, s, got)
	}
	upper := p.D + unit
	if upper < p.D { // overflow: saturate
		upper = math.MaxInt64
		if int64(got) > upper {
			return vk.Bad("impossible")
		}
	} else if int64(got) >= upper {
		return vk.Bad("deadline lengthened by a full unit or more: d=%d encoded %q decodes to %d (unit %d)", p.D, s, got, unit)
	}
	// non-trivial: within ±2 of a multiple of a unit >= the chosen one, or at the 8-digit boundary
	nt := false
	for _, u := range vfC07Units {
		if u == 1 {
			continue
		}
		r := p.D % u
		if r <= 2 || u-r <= 2 {
			nt = true
		}
	}
	res.NonTrivial = nt
	return res
}

func TestVerifC07Encode(t *testing.T) {
	vk.Check(t, vk.Unit[vfC07EncPlan]{
		ID: "C07", Name: "encode",
		Rule: "int64 durations from 6 generators (unit multiples ±2, 10^8·unit ±3, specials, uniform bits, uniform magnitude); non-trivial = positive duration within ±2 ns of a multiple of a unit > 1 ns",
		Gen:  func(rt *rapid.T) vfC07EncPlan { return vfC07EncPlan{D: vfC07GenDuration(rt)} },
		Run:  vfC07RunEnc,
	})
}

type vfC07DecPlan struct {
	S []byte `json:"s"`
}

func vfC07GenString(rt *rapid.T) []byte {
	switch rapid.IntRange(0, 3).Draw(rt, "kind") {
	case 0: // grammar: digits{0,10} + any byte
		n := rapid.IntRange(0, 10).Draw(rt, "ndigits")
		b := make([]byte, 0, n+1)
		for i := 0; i < n; i++ {
			b = append(b, byte('0'+rapid.IntRange(0, 9).Draw(rt, "digit")))
		}
		if rapid.IntRange(0, 9).Draw(rt, "hasunit") > 0 {
			if rapid.Bool().Draw(rt, "goodunit") {
				b = append(b, rapid.SampledFrom([]byte("HMSmun")).Draw(rt, "unit"))
			} else {
				b = append(b, rapid.Byte().Draw(rt, "unitbyte"))
			}
		}
		return b
	case 1: // near-valid with one mutated position
		n := rapid.IntRange(1, 8).Draw(rt, "ndigits")
		b := make([]byte, 0, n+1)
		for i := 0; i < n; i++ {
			b = append(b, byte('0'+rapid.IntRange(0, 9).Draw(rt, "digit")))
		}
		b = append(b, rapid.SampledFrom([]byte("HMSmun")).Draw(rt, "unit"))
		pos := rapid.IntRange(0, len(b)-1).Draw(rt, "pos")
		b[pos] = rapid.SampledFrom([]byte("+-_ .eExX\x00\xff9０h")).Draw(rt, "mut")
		return b
	case 2:
		return rapid.SliceOfN(rapid.Byte(), 0, 12).Draw(rt, "bytes")
	default: // max hours region
		v := rapid.Int64Range(2562040, 2562055).Draw(rt, "hours")
		return []byte(itoa(v) + "H")
	}
}

func itoa(v int64) string {
	if v == 0 {
		return "0"
	}
	var b []byte
	for v > 0 {
		b = append([]byte{byte('0' + v%10)}, b...)
		v /= 10
	}
	return string(b)
}

func vfC07RunDec(_ *testing.T, p vfC07DecPlan) vk.Result {
	s := string(p.S)
	got, err := decodeTimeout(s)
	valid := vfC07Re.MatchString(s)
	res := vk.Result{NonTrivial: len(s) >= 2 && len(s) <= 10}
	if valid {
		res.Classes = append(res.Classes, "valid")
	} else {
		res.Classes = append(res.Classes, "invalid")
	}
	if valid != (err == nil) {
		return vk.Bad("decodeTimeout(%q): err=%v but grammar validity=%v", s, err, valid)
	}
	if err != nil {
		return res
	}
	if got < 0 {
		return vk.Bad("decodeTimeout(%q) = %d is negative", s, got)
	}
	// reference value with big arithmetic (saturating)
	unit, _ := vfC07UnitOf(s[len(s)-1])
	var n int64
	for _, c := range []byte(s[:len(s)-1]) {
		n = n*10 + int64(c-'0')
	}
	over, want := mulOverflows(unit, n)
	if over {
		want = math.MaxInt64
	}
	if int64(got) != want {
		return vk.Bad("decodeTimeout(%q) = %d, want %d", s, got, want)
	}
	return res
}

func TestVerifC07Decode(t *testing.T) {
	vk.Check(t, vk.Unit[vfC07DecPlan]{
		ID: "C07", Name: "decode",
		Rule: "header strings: digit-grammar with arbitrary unit byte, one-byte mutations of valid values, raw bytes, values around the int64-hours overflow; non-trivial = length 2..10",
		Gen:  func(rt *rapid.T) vfC07DecPlan { return vfC07DecPlan{S: vfC07GenString(rt)} },
		Run:  vfC07RunDec,
	})
}

func FuzzVerifC07Decode(f *testing.F) {
	vk.Fuzz(f, vk.Unit[vfC07DecPlan]{ID: "C07", Name: "decode", Run: vfC07RunDec},
		[][]byte{[]byte("1S"), []byte("99999999H"), []byte("100000000n"), []byte("+1S"), []byte("2562048H")},
		func(b []byte) (vfC07DecPlan, bool) { return vfC07DecPlan{S: b}, len(b) <= 16 })
}

func FuzzVerifC07Encode(f *testing.F) {
	f.Add(int64(1))
	f.Add(int64(math.MaxInt64))
	f.Add(int64(99999999001))
	f.Fuzz(func(t *testing.T, d int64) {
		if r := vfC07RunEnc(t, vfC07EncPlan{D: d}); r.Violation != "" {
			t.Fatalf("VERIF-VIOLATION property=C07 unit=encode replay= sig=\"\" :: %s", r.Violation)
		}
	})
}
