package transport

// C17 (writeQuota half): a sender blocked in writeQuota.get is released once
// enough of its data has been written (quota > 0) or the stream ends, and the
// quota returns to its initial value after all data has been written.
//
// Real writeQuota, three cooperative workers (writer / replenisher / closer)
// scheduled at the wq.* verifhook points by the plan's schedule list.

import (
	"fmt"
	"os"
	"sort"
	"sync/atomic"
	"testing"

	"google.golang.org/grpc/internal/verifkit/sched"
	"google.golang.org/grpc/internal/verifkit/vk"
	"pgregory.net/rapid"
)

type vfC17Plan struct {
	Init  int32   `json:"init"`  // initial quota (> 0; real: defaultWriteQuota)
	Gets  []int32 `json:"gets"`  // sizes of the writer's successive get calls (> 0)
	Reps  []int32 `json:"reps"`  // replenisher pieces (used cyclically); each is capped by the frame size and by the bytes granted and not yet replenished
	Stall int     `json:"stall"` // the replenisher stops for good after this many pieces (stream stalled / cleaned up); < 0: never
	Close bool    `json:"close"` // a closer worker closes done when the schedule picks it
	Sched []int   `json:"sched"` // scheduler choices
}

const (
	vfC17Writer = 0
	vfC17Repl   = 1
	vfC17Closer = 2
	)

func vfC17GenSize(rt *rapid.T, label string) int32 {
	switch sched.Uniform(rt, label+"_k", 0, 11) {
	case 0:
		// a message larger than one HTTP/2 frame / than the default quota
		return rapid.SampledFrom([]int32{http2MaxFrameLen - 1, http2MaxFrameLen, http2MaxFrameLen + 1, 40000, defaultWriteQuota, 1 << 17}).Draw(rt, label+"_big")
	default:
		return int32(sched.Uniform(rt, label, 1, 8))
	}
}

func vfC17Gen(rt *rapid.T) vfC17Plan {
	maxGets := vk.Pick(8, 16)
	maxReps := vk.Pick(10, 26)
	p := vfC17Plan{}
	if rapid.IntRange(0, 9).Draw(rt, "init_k") == 0 {
		p.Init = rapid.SampledFrom([]int32{defaultWriteQuota, http2MaxFrameLen, 1<<31 - 1}).Draw(rt, "init_big")
	} else {
		p.Init = int32(sched.Uniform(rt, "init", 1, 5))
	}
	n := sched.Uniform(rt, "ngets", 1, maxGets)
	for i := 0; i < n; i++ {
		p.Gets = append(p.Gets, vfC17GenSize(rt, "get"))
	}
	m := sched.Uniform(rt, "nreps", 1, maxReps)
	for i := 0; i < m; i++ {
		if i > 0 && rapid.IntRange(0, 7).Draw(rt, "rep_zero") == 0 {
			p.Reps = append(p.Reps, 0) // empty DATA frame: replenish(0)
		} else {
			if sched.Uniform(rt, "rep_full", 0, 1) == 0 {
				p.Reps = append(p.Reps, http2MaxFrameLen) // "everything that is unwritten, up to a full frame"
			} else {
				p.Reps = append(p.Reps, vfC17GenSize(rt, "rep"))
			}
		}
	}
	p.Stall = -1
	if sched.Uniform(rt, "stalls", 0, 2) == 0 {
		p.Stall = sched.Uniform(rt, "stall", 0, 2*m)
	}
	p.Close = sched.Uniform(rt, "close", 0, 3) == 0
	p.Sched = sched.GenSchedule(rt, "sched", vk.Pick(100, 200), 6, 4)
	return p
}

func vfC17Run(t *testing.T, p vfC17Plan) vk.Result {
	if p.Init <= 0 || len(p.Gets) == 0 {
		return vk.Result{Discard: true}
	}
	for _, g := range p.Gets {
		if g <= 0 || g > 1<<20 { // larger messages only lengthen the history (one replenish per 16 KiB frame)
			return vk.Result{Discard: true}
		}
	}
	pos := false
	for _, r := range p.Reps {
		if r < 0 {
			return vk.Result{Discard: true}
		}
		pos = pos || r > 0
	}
	if !pos {
		return vk.Result{Discard: true}
	}
	var res vk.Result
	msg := vk.Bubble(t, func(t *testing.T) { res = vfC17Exec(p) })
	if res.Violation == "" && msg != "" {
		return vk.Bad("bubble did not drain: %s", msg)
	}
	return res
}

func vfC17Exec(p vfC17Plan) (res vk.Result) {
	done := make(chan struct{})
	var wq writeQuota
	wq.init(p.Init, done)

	// Ledger, written only by the worker that owns the field; read by the
	// controller at quiescence.
	var granted, replenished int64 // bytes granted by get / given back by replenish
	var doneClosed atomic.Bool
	var getErrs []string // oracle findings recorded by the writer
	writerResult := ""   // "", "ok", "errStreamDone"
	getsDone := 0

	c := sched.New(p.Sched)
	defer c.Close()
	defer func() {
		// Leave no goroutine behind, whatever happened.
		if !doneClosed.Load() {
			doneClosed.Store(true)
			close(done)
		}
		c.Kill()
	}()

	c.Go(vfC17Writer, func() {
		for _, sz := range p.Gets {
			c.Yield("op")
			err := wq.get(sz)
			if err != nil {
				if err != errStreamDone {
					getErrs = append(getErrs, fmt.Sprintf("get(%d) returned unexpected error %v", sz, err))
				} else if !doneClosed.Load() {
					getErrs = append(getErrs, fmt.Sprintf("get(%d) returned errStreamDone although done was never closed", sz))
				}
				writerResult = "errStreamDone"
				return
			}
			atomic.AddInt64(&granted, int64(sz))
			getsDone++
		}
		writerResult = "ok"
	})
	var lastPiece int32
	stalled := false
	idle := 0
	// loopy replenishes what it wrote in one DATA frame: 0..http2MaxFrameLen
	// bytes, never more than what was granted and is still unwritten.
	replenishPiece := func(n int32) {
		out := atomic.LoadInt64(&granted) - atomic.LoadInt64(&replenished)
		if n > http2MaxFrameLen || (n > 0 && out > 64) {
			n = http2MaxFrameLen // much unwritten data: full frames (keeps histories short)
		}
		if int64(n) > out {
			n = int32(out)
		}
		lastPiece = n
		atomic.AddInt64(&replenished, int64(n))
		wq.replenish(int(n))
	}
	// The replenisher plays loopy: while granted bytes are unwritten it writes
	// (replenishes) the next piece; with nothing to write it idles at a yield
	// point; it ends once the writer has ended (or is durably blocked) and
	// everything granted has been written.
	c.Go(vfC17Repl, func() {
		for i := 0; ; {
			c.Yield("op")
			if p.Stall >= 0 && i >= p.Stall {
				stalled = true
				return
			}
			if atomic.LoadInt64(&granted)-atomic.LoadInt64(&replenished) == 0 {
				if ws, _ := c.State(vfC17Writer); ws != sched.Parked {
					return
				}
				idle++
				continue
			}
			replenishPiece(p.Reps[i%len(p.Reps)])
			i++
		}
	})
	if p.Close {
		c.Go(vfC17Closer, func() {
			c.Yield("op")
			doneClosed.Store(true)
			close(done)
		})
	}

	classes := map[string]bool{}
	nontrivial := false
	steps := 0
	ledger := func(where string) string {
		q := int64(atomic.LoadInt32(&wq.quota))
		want := int64(p.Init) - atomic.LoadInt64(&granted) + atomic.LoadInt64(&replenished)
		if q != want {
			return fmt.Sprintf("%s: quota=%d but initial(%d) - granted(%d) + replenished(%d) = %d", where, q, p.Init, granted, replenished, want)
		}
		return ""
	}
	finish := func(r vk.Result) vk.Result {
		for k := range classes {
			r.Classes = append(r.Classes, k)
		}
		sort.Strings(r.Classes)
		r.Steps = steps
		return r
	}

	for {
		wState, wPoint := c.State(vfC17Writer)
		q0 := atomic.LoadInt32(&wq.quota)
		st := c.Step()
		switch st.Kind {
		case sched.Released:
			steps++
			if st.Point == "wq.replenish.afterAdd" && wState == sched.Parked && wPoint == "wq.get.beforeWait" {
				classes["replenish_completes_in_window"] = true
				// did this replenish cross zero (=> it signals while the writer
				// has loaded quota<=0 but is not yet waiting)?
				if q0 > 0 && int64(q0)-int64(lastPiece) <= 0 {
					classes["signal_in_window"] = true
				}
			}
			if (st.Point == "op" && st.Worker != vfC17Writer && st.Worker != vfC17Closer) && wState == sched.Parked && wPoint == "wq.get.beforeWait" {
				classes["add_in_window"] = true
			}
			if st.Worker == vfC17Closer && wState == sched.Parked && wPoint == "wq.get.beforeWait" {
				classes["close_in_window"] = true
			}
			if m := ledger(fmt.Sprintf("after step %d (%d@%s)", steps, st.Worker, st.Point)); m != "" {
				return finish(vk.Bad("%s", m))
			}
			if len(getErrs) > 0 {
				return finish(vk.Bad("%s", getErrs[0]))
			}
			continue
		case sched.Panicked:
			return finish(vk.Bad("panic: %s", st.Panic))
		case sched.Overrun:
			return finish(vk.Bad("harness: step limit exceeded (livelock?)"))
		case sched.Stuck:
			// Only the writer can block. Liveness oracle.
			if len(st.Blocked) != 1 || st.Blocked[0] != vfC17Writer {
				return finish(vk.Bad("harness: unexpected blocked workers %v", st.Blocked))
			}
			q := atomic.LoadInt32(&wq.quota)
			if doneClosed.Load() {
				return finish(vk.Bad("lost wake-up: writer blocked in get(%d) although done is closed (quota=%d)", p.Gets[getsDone], q))
			}
			if q > 0 {
				return finish(vk.Bad("lost wake-up: writer blocked in get(%d) while quota=%d > 0 and nobody else can move (granted=%d replenished=%d)", p.Gets[getsDone], q, granted, replenished))
			}
			if !stalled {
				return finish(vk.Bad("harness: writer blocked with quota=%d, granted=%d replenished=%d but the replenisher ended", q, granted, replenished))
			}
			// Legitimately blocked: loopy will not write any more of this stream.
			// The stream ends: the sender must be released with errStreamDone.
			classes["blocked_until_stream_end"] = true
			doneClosed.Store(true)
			close(done)
			continue
		case sched.Done:
		}
		break
	}
	if len(getErrs) > 0 {
		return finish(vk.Bad("%s", getErrs[0]))
	}
	if writerResult == "errStreamDone" {
		classes["err_stream_done"] = true
	}
	if doneClosed.Load() {
		classes["done_closed"] = true
	}
	if idle > 0 {
		classes["replenisher_idled"] = true
	}
	// All data written => quota back to the initial value.
	for granted-replenished > 0 {
		replenishPiece(http2MaxFrameLen) // no worker left: runs on the controller goroutine, the handler ignores it
	}
	if q := atomic.LoadInt32(&wq.quota); q != p.Init {
		return finish(vk.Bad("after all %d granted bytes were written quota=%d, want the initial value %d", granted, q, p.Init))
	}
	if os.Getenv("VFC17_TRACE") != "" {
		fmt.Printf("plan %+v\n trace %v\n classes %v\n", p, c.Trace(), classes)
	}
	nontrivial = classes["signal_in_window"]
	r := finish(vk.Result{NonTrivial: nontrivial})
	return r
}

func TestVerifC17WriteQuota(t *testing.T) {
	vk.Check(t, vk.Unit[vfC17Plan]{
		ID: "C17", Name: "writequota",
		Rule: "real writeQuota (initial 1..6, 16384, 65536 or 2^31-1); one writer doing get(sz) (sz 1..8 or 16383..131072), one loopy-like replenisher giving back pieces (0..8 or a full frame, capped by granted-replenished, incl. replenish(0)) as long as granted bytes are unwritten, optionally stalling for good after k pieces (then the harness ends the stream once the writer is durably blocked), optional closer of done; interleaved at wq.get.afterLoad / wq.get.beforeWait / wq.replenish.afterAdd and at operation starts by a generated schedule; non-trivial = a replenish finished (add + signal decision) while the writer had loaded quota<=0 and was not yet waiting (parked at wq.get.beforeWait)",
		Gen:  vfC17Gen, Run: vfC17Run,
	})
}
