package transport

// C08: grpc-message percent-encoding is a lossless printable-ASCII round trip.
//
//   - for every byte string m: enc(m) consists only of bytes in [0x20,0x7E], '%'
//     occurs in it only as %XX (two hex digits); a strict reference decoder (in
//     this file, independent of decodeGrpcMessage) and decodeGrpcMessage both map
//     enc(m) to ref(m), where ref replaces every invalid UTF-8 byte by U+FFFD
//     and keeps everything else (so ref(m) == m for valid UTF-8);
//   - decodeGrpcMessage is total (never panics) on arbitrary header values.

import (
	"bytes"
	"fmt"
	"testing"
	"unicode/utf8"

	"google.golang.org/grpc/internal/verifkit/vk"
	"pgregory.net/rapid"
)

type vfC08Plan struct {
	M []byte `json:"m"`
}

// vfC08Ref is the reference "replace each invalid byte by U+FFFD" function. It
// uses the language-level string iteration (for range), which yields
// (U+FFFD, width 1) for every byte that does not start a valid encoding.
func vfC08Ref(m []byte) []byte {
	s := string(m)
	out := make([]byte, 0, len(s))
	for _, r := range s {
		// r is U+FFFD both for a genuine U+FFFD (EF BF BD) and for an invalid
		// byte (width 1); both are written as EF BF BD.
		out = utf8.AppendRune(out, r)
	}
	return out
}

func vfC08Hex(c byte) (byte, bool) {
	switch {
	case c >= '0' && c <= '9':
		return c - '0', true
	case c >= 'A' && c <= 'F':
		return c - 'A' + 10, true
	case c >= 'a' && c <= 'f':
		return c - 'a' + 10, true
	}
	return 0, false
}

// vfC08StrictDecode decodes a well-formed encoded value: every '%' must be
// followed by two hex digits, every byte must be printable ASCII.
func vfC08StrictDecode(e string) ([]byte, error) {
	out := make([]byte, 0, len(e))
	for i := 0; i < len(e); i++ {
		c := e[i]
		if c < 0x20 || c > 0x7E {
			return nil, fmt.Errorf("byte 0x%02X at offset %d is not printable ASCII", c, i)
		}
		if c != '%' {
			out = append(out, c)
			continue
		}
		if i+2 >= len(e) {
			return nil, fmt.Errorf("'%%' at offset %d is not followed by two characters", i)
		}
		h, ok1 := vfC08Hex(e[i+1])
		l, ok2 := vfC08Hex(e[i+2])
		if !ok1 || !ok2 {
			return nil, fmt.Errorf("'%%' at offset %d is followed by non-hex %q", i, e[i+1:i+3])
		}
		out = append(out, h<<4|l)
		i += 2
	}
	return out, nil
}

var vfC08Runes = []rune{0x80, 0xFF, 0x7FF, 0x800, 0xFFFD, 0xFFFF, 0x10000, 0x10FFFF, 0xD7FF, 0xE000, 'é', '世', '界', 0x1F600, 0xFEFF, 0x2028}

var vfC08Invalid = [][]byte{
	{0x80}, {0xBF}, {0xC0, 0x80}, {0xC1, 0xBF}, {0xC2}, {0xE0, 0x80, 0x80}, {0xE0, 0xA0}, {0xE2, 0x82},
	{0xED, 0xA0, 0x80}, {0xED, 0xBF, 0xBF}, {0xF0, 0x80, 0x80, 0x80}, {0xF0, 0x90, 0x80}, {0xF4, 0x90, 0x80, 0x80},
	{0xF5}, {0xF8, 0x88, 0x80, 0x80, 0x80}, {0xFE}, {0xFF}, {0xEF, 0xBF}, {0xEF}, {0xF4, 0x8F, 0xBF},
}

func vfC08GenPiece(rt *rapid.T) []byte {
	switch rapid.IntRange(0, 9).Draw(rt, "piece") {
	case 0: // printable ASCII run
		n := rapid.IntRange(1, 6).Draw(rt, "n")
		b := make([]byte, n)
		for i := range b {
			b[i] = byte(rapid.IntRange(0x20, 0x7E).Draw(rt, "c"))
		}
		return b
	case 1:
		return []byte{'%'}
	case 2: // text that looks like an escape
		return []byte{'%', rapid.SampledFrom([]byte("0123456789ABCDEFabcdefgG%x ")).Draw(rt, "h1"), rapid.SampledFrom([]byte("0123456789ABCDEFabcdefgG%x ")).Draw(rt, "h2")}
	case 3: // control / DEL
		return []byte{rapid.SampledFrom([]byte{0, 1, 9, 10, 13, 0x1F, 0x7F}).Draw(rt, "ctl")}
	case 4:
		return []byte(string(rapid.SampledFrom(vfC08Runes).Draw(rt, "rune")))
	case 5: // any valid rune
		r := rapid.Rune().Draw(rt, "anyrune")
		return []byte(string(r))
	case 6:
		return append([]byte(nil), rapid.SampledFrom(vfC08Invalid).Draw(rt, "invalid")...)
	case 7: // truncated valid multi-byte rune
		b := []byte(string(rapid.SampledFrom(vfC08Runes).Draw(rt, "trunc_rune")))
		k := rapid.IntRange(1, len(b)).Draw(rt, "keep")
		return b[:k]
	case 8:
		return []byte{rapid.Byte().Draw(rt, "byte")}
	default: // boundary bytes of the printable range
		return []byte{rapid.SampledFrom([]byte{0x1F, 0x20, 0x24, 0x25, 0x26, 0x7E, 0x7F, 0x80}).Draw(rt, "edge")}
	}
}

func vfC08GenMsg(rt *rapid.T) []byte {
	if rapid.IntRange(0, 19).Draw(rt, "raw") == 0 {
		return rapid.SliceOfN(rapid.Byte(), 0, 24).Draw(rt, "bytes")
	}
	n := rapid.IntRange(0, 8).Draw(rt, "npieces")
	if rapid.IntRange(0, 29).Draw(rt, "long") == 0 {
		n = rapid.IntRange(9, 120).Draw(rt, "npieces_long")
	}
	var m []byte
	for i := 0; i < n; i++ {
		m = append(m, vfC08GenPiece(rt)...)
	}
	return m
}

func vfC08Classes(m []byte) (classes []string, nt bool) {
	if len(m) == 0 {
		return []string{"empty"}, false
	}
	hasPct, hasNonASCII, hasCtl := false, false, false
	for _, c := range m {
		switch {
		case c == '%':
			hasPct = true
		case c >= 0x80:
			hasNonASCII = true
		case c < 0x20 || c == 0x7F:
			hasCtl = true
		}
	}
	if hasPct {
		classes = append(classes, "percent")
		n := len(m)
		if m[n-1] == '%' || (n >= 2 && m[n-2] == '%') || (n >= 3 && m[n-3] == '%') {
			classes = append(classes, "percent_in_last3")
		}
	}
	if hasCtl {
		classes = append(classes, "control")
	}
	if hasNonASCII {
		if utf8.Valid(m) {
			classes = append(classes, "multibyte_valid")
		} else {
			classes = append(classes, "invalid_utf8")
		}
	}
	if !hasPct && !hasNonASCII && !hasCtl {
		classes = append(classes, "plain")
	}
	return classes, hasPct || hasNonASCII
}

func vfC08RunRoundTrip(_ *testing.T, p vfC08Plan) vk.Result {
	m := string(p.M)
	classes, nt := vfC08Classes(p.M)
	res := vk.Result{Classes: classes, NonTrivial: nt}
	want := vfC08Ref(p.M)
	if utf8.Valid(p.M) && !bytes.Equal(want, p.M) {
		return vk.Bad("harness: reference changed valid UTF-8 %q", m)
	}
	enc := encodeGrpcMessage(m)
	viaStrict, err := vfC08StrictDecode(enc)
	if err != nil {
		return vk.Bad("encodeGrpcMessage(%q) = %q is not a well-formed printable-ASCII value: %v", m, enc, err)
	}
	if !bytes.Equal(viaStrict, want) {
		return vk.Bad("encodeGrpcMessage(%q) = %q denotes %q, want %q", m, enc, viaStrict, want)
	}
	dec := decodeGrpcMessage(enc)
	if dec != string(want) {
		return vk.Bad("decodeGrpcMessage(encodeGrpcMessage(%q)) = %q, want %q (encoded %q)", m, dec, want, enc)
	}
	return res
}

func TestVerifC08RoundTrip(t *testing.T) {
	vk.Check(t, vk.Unit[vfC08Plan]{
		ID: "C08", Name: "roundtrip",
		Rule: "messages = concatenation of 0..8 (sometimes up to 120) pieces: printable runs, '%', text looking like %XX, control bytes, boundary-value runes, any rune, 20 invalid UTF-8 shapes (overlong, surrogate, >U+10FFFF, lone continuation, truncated), truncated valid runes, raw bytes; 5% raw byte strings. non-trivial = contains '%' or a byte >= 0x80",
		Gen:  func(rt *rapid.T) vfC08Plan { return vfC08Plan{M: vfC08GenMsg(rt)} },
		Run:  vfC08RunRoundTrip,
	})
}

// ---- decoder on arbitrary header values ----

// vfC08LenientDecode is the reference for arbitrary values used as a
// statistic only: %XX with two hex digits is one byte, anything else is kept.
func vfC08LenientDecode(e string) []byte {
	out := make([]byte, 0, len(e))
	for i := 0; i < len(e); i++ {
		if e[i] == '%' && i+2 < len(e) {
			h, ok1 := vfC08Hex(e[i+1])
			l, ok2 := vfC08Hex(e[i+2])
			if ok1 && ok2 {
				out = append(out, h<<4|l)
				i += 2
				continue
			}
		}
		out = append(out, e[i])
	}
	return out
}

func vfC08GenHeader(rt *rapid.T) []byte {
	switch rapid.IntRange(0, 3).Draw(rt, "hkind") {
	case 0:
		return rapid.SliceOfN(rapid.Byte(), 0, 16).Draw(rt, "bytes")
	case 1: // a valid encoding with one position mutated / truncated
		e := []byte(encodeGrpcMessageUnchecked(string(vfC08GenMsg(rt))))
		if len(e) == 0 {
			return e
		}
		switch rapid.IntRange(0, 2).Draw(rt, "mut") {
		case 0:
			return e[:rapid.IntRange(0, len(e)).Draw(rt, "cut")]
		case 1:
			e[rapid.IntRange(0, len(e)-1).Draw(rt, "pos")] = rapid.SampledFrom([]byte("%gG+-_ xX\x00\xff0F")).Draw(rt, "mutbyte")
			return e
		default:
			return e
		}
	default: // escape-heavy grammar
		n := rapid.IntRange(0, 8).Draw(rt, "n")
		var b []byte
		al := []byte("0123456789abcdefABCDEFgG%+-_ xX\x00\xff")
		for i := 0; i < n; i++ {
			switch rapid.IntRange(0, 3).Draw(rt, "tok") {
			case 0:
				b = append(b, '%')
			case 1:
				b = append(b, '%', rapid.SampledFrom(al).Draw(rt, "a"), rapid.SampledFrom(al).Draw(rt, "b"))
			case 2:
				b = append(b, '%', rapid.SampledFrom(al).Draw(rt, "a"))
			default:
				b = append(b, rapid.SampledFrom(al).Draw(rt, "c"))
			}
		}
		return b
	}
}

func vfC08RunDecodeAny(_ *testing.T, p vfC08Plan) (res vk.Result) {
	e := string(p.M)
	defer func() {
		if r := recover(); r != nil {
			res = vk.Bad("decodeGrpcMessage(%q) panicked: %v", e, r)
		}
	}()
	got := decodeGrpcMessage(e)
	hasPct := bytes.IndexByte(p.M, '%') >= 0
	res.NonTrivial = hasPct
	n := len(p.M)
	if hasPct && (p.M[n-1] == '%' || (n >= 2 && p.M[n-2] == '%')) {
		res.Classes = append(res.Classes, "dangling_percent_at_end")
	}
	if !hasPct {
		res.Classes = append(res.Classes, "no_percent")
		if got != e {
			return vk.Bad("decodeGrpcMessage(%q) = %q changed a value without '%%'", e, got)
		}
		return res
	}
	if len(got) > len(e) {
		return vk.Bad("decodeGrpcMessage(%q) = %q is longer than its input", e, got)
	}
	if got == string(vfC08LenientDecode(e)) {
		res.Classes = append(res.Classes, "agrees_with_lenient_reference")
	} else {
		res.Classes = append(res.Classes, "differs_from_lenient_reference")
	}
	return res
}

func TestVerifC08DecodeAny(t *testing.T) {
	vk.Check(t, vk.Unit[vfC08Plan]{
		ID: "C08", Name: "decode_any",
		Rule: "header values: raw bytes, valid encodings truncated or mutated at one position, escape-heavy token grammar ('%', '%a', '%ab' over hex/near-hex/odd bytes); oracle = no panic (and values without '%' unchanged); non-trivial = contains '%'",
		Gen:  func(rt *rapid.T) vfC08Plan { return vfC08Plan{M: vfC08GenHeader(rt)} },
		Run:  vfC08RunDecodeAny,
	})
}

func FuzzVerifC08RoundTrip(f *testing.F) {
	vk.Fuzz(f, vk.Unit[vfC08Plan]{ID: "C08", Name: "roundtrip", Run: vfC08RunRoundTrip},
		[][]byte{[]byte("abc"), []byte("100%"), []byte("%41"), []byte("a%2"), []byte("\xff%"), []byte("世界%"), {0xED, 0xA0, 0x80}, []byte("�")},
		func(b []byte) (vfC08Plan, bool) { return vfC08Plan{M: b}, len(b) <= 256 })
}

func FuzzVerifC08DecodeAny(f *testing.F) {
	vk.Fuzz(f, vk.Unit[vfC08Plan]{ID: "C08", Name: "decode_any", Run: vfC08RunDecodeAny},
		[][]byte{[]byte("%"), []byte("%4"), []byte("%41"), []byte("a%"), []byte("a%4"), []byte("%%%"), []byte("%gg"), []byte("%E4%B8%96")},
		func(b []byte) (vfC08Plan, bool) { return vfC08Plan{M: b}, len(b) <= 256 })
}
