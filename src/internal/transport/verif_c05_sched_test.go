package transport

// C05, schedule-controlled unit: the producer (transport reader goroutine:
// recvBuffer.put) and the application reader (server-flavour recvBufferReader)
// are cooperative workers of a sched.Controller inside a synctest bubble. The
// plan's schedule list decides who moves at
//
//   - the start of every operation (harness yield "op"),
//   - verifhook "recvbuf.put.begin" (top of recvBuffer.put, before the mutex),
//   - verifhook "recvbuf.load.begin" (top of recvBuffer.load, before the mutex;
//     the reader has already taken its message from the channel: this is the
//     window between `<-recv.get()` and `recv.load()`),
//   - the buffer pool's Get/Put ("pool.get"/"pool.put"), but only when
//     recvBuffer.mu is not held by the caller (decided with TryLock: exactly one
//     worker runs at a time, so a failing TryLock means the caller itself holds
//     it). That makes an implementation that fetches the compaction buffer with
//     the mutex released schedulable as well.
//
// The oracle is the byte-stream ledger of the `recvbuf` unit (position
// dependent byte pattern, tracking/poisoning pool) plus a lost-wake-up rule: a
// reader durably blocked in its channel receive while the model says a
// completed put or the terminal is undelivered is a violation.

import (
	"context"
	"fmt"
	"io"
	"os"
	"sort"
	"strings"
	"testing"

	"google.golang.org/grpc/internal/envconfig"
	"google.golang.org/grpc/internal/verifkit/sched"
	"google.golang.org/grpc/internal/verifkit/trackpool"
	"google.golang.org/grpc/internal/verifkit/vk"
	"google.golang.org/grpc/mem"
	"pgregory.net/rapid"
)

const (
	vfC05SKPut   = 0 // one data message of N bytes (1..16384); yields at recvbuf.put.begin
	vfC05SKBurst = 1 // ONE op: N puts of 1..M bytes; put.begin yields only every Y-th put and within W puts around a compaction
	vfC05SKEOF   = 2 // put io.EOF
	vfC05SKErr   = 3 // put a transport error

	vfC05SProducer = 0 // worker ids: an exhausted schedule lets the producer go first
	vfC05SConsumer = 1
)

type vfC05SOp struct {
	K int `json:"k"`
	N int `json:"n,omitempty"`
	M int `json:"m,omitempty"` // burst: tiny sizes are 1..M
	Y int `json:"y,omitempty"` // burst: yield at put.begin on every Y-th put (0: never)
	W int `json:"w,omitempty"` // burst: yield at put.begin on the ~W puts before the compaction trigger and the W puts after a compaction
}

type vfC05SPlan struct {
	Compaction bool       `json:"compaction"`
	Prod       []vfC05SOp `json:"prod"`  // producer ops in order; EOF is appended if there is no terminal
	Reads      []int      `json:"reads"` // reader sizes, used cyclically until the terminal is reported; negative: ReadMessageHeader(-n)
	Sched      []int      `json:"sched"`
}

func vfC05SGen(rt *rapid.T) vfC05SPlan {
	p := vfC05SPlan{Compaction: sched.Uniform(rt, "compaction", 0, 3) > 0}
	n := sched.Uniform(rt, "nprod", 1, vk.Pick(10, 20))
	termShare := vk.Pick(4, 2) // per cent per op, for each of EOF / error (longer op lists: rarer, so that the terminal does not cut most of them short)
	for i := 0; i < n; i++ {
		var op vfC05SOp
		switch k := sched.Uniform(rt, "kind", 0, 99); {
		case k < 50:
			op.K = vfC05SKPut
			switch sched.Uniform(rt, "size_kind", 0, 9) {
			case 0:
				op.N = rapid.SampledFrom([]int{1023, 1024, 1025, 16384, 4096}).Draw(rt, "size_special")
			case 1:
				op.N = sched.Uniform(rt, "size_big", 100, 16384)
			default:
				op.N = sched.Uniform(rt, "size", 1, 120)
			}
		case k < 100-2*termShare:
			op.K = vfC05SKBurst
			if sched.Uniform(rt, "burst_kind", 0, 3) == 0 {
				op.N = sched.Uniform(rt, "burst_small", 1, 100)
			} else {
				op.N = sched.Uniform(rt, "burst", 100, 2500)
			}
			op.M = rapid.SampledFrom([]int{1, 2, 8, 30, 55, 56, 57, 100, 111, 112, 113, 200}).Draw(rt, "tiny_max")
			if sched.Uniform(rt, "every_on", 0, 1) == 1 {
				op.Y = sched.Uniform(rt, "every", 50, 800)
			}
			op.W = sched.Uniform(rt, "near", 0, 3)
		case k < 100-termShare:
			op.K = vfC05SKEOF
		default:
			op.K = vfC05SKErr
		}
		p.Prod = append(p.Prod, op)
	}
	nr := sched.Uniform(rt, "nreads", 1, 10)
	for i := 0; i < nr; i++ {
		switch sched.Uniform(rt, "rk", 0, 9) {
		case 0, 1:
			if sched.Uniform(rt, "h5", 0, 2) > 0 {
				p.Reads = append(p.Reads, -5)
			} else {
				p.Reads = append(p.Reads, -sched.Uniform(rt, "hn", 1, 64))
			}
		case 2:
			p.Reads = append(p.Reads, sched.Uniform(rt, "n_big", 1000, 70000))
		case 3:
			p.Reads = append(p.Reads, 1<<30)
		default:
			p.Reads = append(p.Reads, sched.Uniform(rt, "n", 1, 200))
		}
	}
	p.Sched = sched.GenSchedule(rt, "sched", vk.Pick(160, 400), 2, 5)
	return p
}

func vfC05SRun(t *testing.T, p vfC05SPlan) vk.Result {
	if len(p.Prod) == 0 || len(p.Prod) > 200 || len(p.Reads) == 0 || len(p.Reads) > 1000 {
		return vk.Result{Discard: true}
	}
	total := 0
	for _, op := range p.Prod {
		switch op.K {
		case vfC05SKPut:
			if op.N < 1 || op.N > http2MaxFrameLen {
				return vk.Result{Discard: true}
			}
			total++
		case vfC05SKBurst:
			if op.N < 1 || op.N > 5000 || op.M < 1 || op.M > http2MaxFrameLen || op.Y < 0 || op.W < 0 || op.W > 16 {
				return vk.Result{Discard: true}
			}
			total += op.N
		case vfC05SKEOF, vfC05SKErr:
		default:
			return vk.Result{Discard: true}
		}
	}
	if total > 200000 {
		return vk.Result{Discard: true}
	}
	for _, r := range p.Reads {
		if r == 0 || r < -1<<16 {
			return vk.Result{Discard: true}
		}
	}
	var res vk.Result
	msg := vk.Bubble(t, func(t *testing.T) { res = vfC05SExec(p) })
	if res.Violation == "" && msg != "" {
		return vk.Bad("bubble did not drain: %s", msg)
	}
	return res
}

// vfC05SPool is the tracking pool plus yield points. It yields only when
// recvBuffer.mu is free (see the file comment) and not in quiet mode.
type vfC05SPool struct {
	inner *trackpool.Pool
	rb    *recvBuffer
	c     *sched.Controller
	quiet *bool // no yields any more (final drain / abort)
	gets  int   // Get calls (only the code under test calls Get: compactions)
}

func (p *vfC05SPool) mayYield() bool {
	if *p.quiet {
		return false
	}
	if p.rb.mu.TryLock() {
		p.rb.mu.Unlock()
		return true
	}
	return false
}

func (p *vfC05SPool) Get(n int) *[]byte {
	p.gets++
	if p.mayYield() {
		p.c.Yield("pool.get")
	}
	return p.inner.Get(n)
}

func (p *vfC05SPool) Put(b *[]byte) {
	if p.mayYield() {
		p.c.Yield("pool.put")
	}
	p.inner.Put(b)
}

// vfC05SModel is the ledger. Each field is written by one worker only (or by
// the controller at quiescence); exactly one worker executes harness code at a
// time.
type vfC05SModel struct {
	// producer side
	begun     int   // data bytes (before the terminal) whose put has begun
	done      int   // data bytes (before the terminal) whose put has returned
	termBegun error // terminal whose put has begun
	termDone  error // terminal whose put has returned
	putsDone  int   // puts (data, before or after the terminal, and the terminal) that have returned
	inPut     bool  // the producer is inside recvBuffer.put
	termPutNo int   // value of putsDone after the terminal's put
	// reader side
	readPos   int   // data bytes delivered
	readerErr error // terminal the reader reported
	reads     int
}

func vfC05SExec(p vfC05SPlan) vk.Result {
	saved := envconfig.EnableReceiveBufferCompaction
	envconfig.EnableReceiveBufferCompaction = p.Compaction
	defer func() { envconfig.EnableReceiveBufferCompaction = saved }()

	c := sched.New(p.Sched)
	defer c.Close()

	inner := trackpool.New(trackpool.Options{Reuse: true})
	var rb recvBuffer
	quiet := false   // written by the reader at an op start after the producer finished, or by the controller (abort)
	abort := false   // written by the controller at quiescence: workers leave at their next op boundary
	putHook := false // producer-owned: park at recvbuf.put.begin
	pool := &vfC05SPool{inner: inner, rb: &rb, c: c, quiet: &quiet}
	rb.init(pool)
	// The context is cancelled only during clean-up (to release a blocked reader).
	ctx, cancel := context.WithCancel(context.Background())
	rd := &recvBufferReader{ctx: ctx, ctxDone: ctx.Done(), recv: &rb}

	c.Filter = func(pt string) bool {
		switch pt {
		case "recvbuf.put.begin":
			return putHook // only the producer reaches this point
		case "recvbuf.load.begin":
			return !quiet // only the reader reaches this point
		}
		return false
	}

	var m vfC05SModel
	classes := map[string]bool{}
	var findings []string
	steps := 0
	compactions := 0

	defer func() {
		// Leave no goroutine behind. Workers parked inside recvBuffer.put with
		// the mutex released (possible only in a restructured put) must run on to
		// the end of put: killing them there would run put's deferred Unlock on
		// an unlocked mutex. So: no more yields, release everybody, then kill.
		abort, quiet = true, true
		cancel()
		for i := 0; i < 64; i++ {
			if st := c.Step(); st.Kind != sched.Released {
				break
			}
		}
		c.Kill()
	}()

	// ---------------- producer ----------------
	ops := append([]vfC05SOp(nil), p.Prod...)
	hasTerminal := false
	for _, op := range ops {
		hasTerminal = hasTerminal || op.K == vfC05SKEOF || op.K == vfC05SKErr
	}
	if !hasTerminal {
		ops = append(ops, vfC05SOp{K: vfC05SKEOF})
	}
	sinceCompaction := 1 << 30 // puts since the last compaction
	putData := func(size int, hook bool) {
		var b []byte
		if mem.IsBelowBufferPoolingThreshold(size) {
			b = make([]byte, size)
		} else {
			b = *inner.Get(size) // the transport's readDataFrame allocation: tracked, no yield point
		}
		live := m.termBegun == nil
		base := m.begun
		if !live {
			classes["put_after_terminal"] = true
			base = 1 << 22 // never delivered
		}
		for i := range b {
			b[i] = vfC05Byte(base + i)
		}
		if live {
			m.begun += size
		}
		g0 := pool.gets
		putHook, m.inPut = hook, true
		rb.put(recvMsg{buffer: mem.NewBuffer(&b, pool)})
		putHook, m.inPut = false, false
		if live {
			m.done += size
		}
		m.putsDone++
		sinceCompaction++
		if pool.gets > g0 {
			compactions++
			sinceCompaction = 0
		}
	}
	putTerminal := func(err error) {
		if m.termBegun != nil {
			// at most one terminal per stream (see notes/C05.md)
			classes["second_terminal_skipped"] = true
			return
		}
		if m.readPos < m.begun {
			classes["terminal_with_unread_data"] = true
		}
		if len(rb.backlog) > 0 { // peek (the reader is parked or blocked): class only
			classes["terminal_with_backlog"] = true
		}
		m.termBegun = err
		putHook, m.inPut = true, true
		rb.put(recvMsg{err: err})
		putHook, m.inPut = false, false
		m.termDone = err
		m.putsDone++
		m.termPutNo = m.putsDone
	}
	// nearTrigger peeks at the suffix ledger (only to place yield points, never
	// for a verdict): will a put of size bytes come within ~w puts of the
	// compaction threshold?
	nearTrigger := func(size, w, mx int) bool {
		if !p.Compaction || w == 0 {
			return false
		}
		heap := (rb.uncompactedSuffixLen+1)*recvMsgSize + rb.uncompactedBytes + size
		return compactionThreshold-heap < w*(recvMsgSize+(mx+1)/2)
	}
	c.Go(vfC05SProducer, func() {
		for i, op := range ops {
			c.Yield("op")
			if abort {
				return
			}
			switch op.K {
			case vfC05SKPut:
				putData(op.N, true)
			case vfC05SKBurst:
				for j := 0; j < op.N && !abort; j++ {
					size := vfC05Tiny(i, j, op.M)
					hook := (op.Y > 0 && j%op.Y == op.Y-1) || nearTrigger(size, op.W, op.M) || sinceCompaction < op.W
					putData(size, hook)
				}
			case vfC05SKEOF:
				putTerminal(io.EOF)
			case vfC05SKErr:
				putTerminal(vfC05ErrTransport)
			}
		}
	})

	// ---------------- reader ----------------
	readLimit := 0
	for _, op := range ops {
		switch op.K {
		case vfC05SKPut:
			readLimit += 1 + op.N
		case vfC05SKBurst:
			readLimit += op.N * (1 + op.M)
		}
	}
	readLimit = 2*readLimit + 1000
	// The application keeps the previously returned buffer while it makes the
	// next call, re-verifies it and only then frees it.
	var held mem.Buffer
	heldPos := 0
	verify := func(what string, data []byte, pos int) string {
		for i, b := range data {
			if b != vfC05Byte(pos+i) {
				return fmt.Sprintf("%s delivered a wrong byte at stream offset %d: got %#x want %#x (chunk of %d bytes at offset %d; lost, duplicated or reordered data, or a buffer released too early)", what, pos+i, b, vfC05Byte(pos+i), len(data), pos)
			}
		}
		return ""
	}
	releaseHeld := func() string {
		if held == nil {
			return ""
		}
		msg := verify("an earlier Read (buffer still held by the application)", held.ReadOnlyData(), heldPos)
		held.Free()
		held = nil
		return msg
	}
	c.Go(vfC05SConsumer, func() {
		k, dk, afterTerm, empties := 0, 0, 0, 0
		for {
			if !quiet {
				c.Yield("op")
				if st, _ := c.State(vfC05SProducer); st == sched.Finished {
					quiet = true // final drain: no more yield points
				}
			}
			if abort {
				return
			}
			n, header := 0, false
			if quiet {
				n = 1 + (dk*7919)%5000
				if dk%3 == 2 {
					n, header = 5, true
				}
				dk++
			} else {
				r := p.Reads[k%len(p.Reads)]
				k++
				if r < 0 {
					n, header = -r, true
				} else {
					n = r
				}
			}
			if m.reads++; m.reads > readLimit {
				findings = append(findings, fmt.Sprintf("reader made %d reads without reaching the terminal (delivered %d of %d bytes)", m.reads, m.readPos, m.begun))
				return
			}
			var data []byte
			var buf mem.Buffer
			var err error
			what := ""
			if header {
				what = fmt.Sprintf("ReadMessageHeader(%d bytes)", n)
				h := make([]byte, n)
				var got int
				got, err = rd.ReadMessageHeader(h)
				data = h[:got]
			} else {
				what = fmt.Sprintf("Read(%d)", n)
				buf, err = rd.Read(n)
				if buf != nil {
					data = buf.ReadOnlyData()
				}
			}
			if abort {
				return
			}
			bad := func(format string, args ...any) {
				findings = append(findings, fmt.Sprintf("read #%d %s: ", m.reads, what)+fmt.Sprintf(format, args...))
			}
			if err != nil {
				if len(data) != 0 {
					bad("returned %d bytes together with error %v", len(data), err)
					return
				}
				if m.readerErr != nil {
					if err != m.readerErr {
						bad("returned %v after the reader had already reported %v", err, m.readerErr)
						return
					}
				} else {
					if m.termBegun == nil {
						bad("returned error %v but no end-of-stream/error was received", err)
						return
					}
					if err != m.termBegun {
						bad("returned error %v, want the received terminal %v", err, m.termBegun)
						return
					}
					if m.readPos != m.begun {
						bad("reported %v after %d of the %d data bytes received before it (data lost)", err, m.readPos, m.begun)
						return
					}
					m.readerErr = err
				}
				if msg := releaseHeld(); msg != "" {
					findings = append(findings, msg)
					return
				}
				if afterTerm++; afterTerm >= 2 {
					return // the terminal was reported and repeated once
				}
				continue
			}
			if m.readerErr != nil {
				bad("delivered %d bytes after the reader had reported %v", len(data), m.readerErr)
				return
			}
			if len(data) == 0 {
				// not loss/duplication/reordering: counted; bounded to keep the run finite
				classes["empty_read"] = true
				if empties++; empties > 1000 {
					bad("more than 1000 empty reads")
					return
				}
				continue
			}
			if len(data) > n {
				bad("returned %d bytes", len(data))
				return
			}
			if m.readPos+len(data) > m.begun {
				bad("delivered %d bytes at offset %d but only %d bytes were received (invented/duplicated data)", len(data), m.readPos, m.begun)
				return
			}
			if msg := verify(fmt.Sprintf("read #%d %s", m.reads, what), data, m.readPos); msg != "" {
				findings = append(findings, msg)
				return
			}
			pos := m.readPos
			m.readPos += len(data)
			if msg := releaseHeld(); msg != "" {
				findings = append(findings, msg)
				return
			}
			if buf != nil {
				held, heldPos = buf, pos
			}
		}
	})

	// ---------------- controller ----------------
	finish := func(r vk.Result) vk.Result {
		for k := range classes {
			r.Classes = append(r.Classes, k)
		}
		sort.Strings(r.Classes)
		r.Steps = steps
		if os.Getenv("VFC05S_TRACE") != "" {
			fmt.Printf("plan %+v\n trace %v\n classes %v\n verdict %q\n", p, c.Trace(), r.Classes, r.Violation)
		}
		return r
	}
	tail := func() string {
		tr := c.Trace()
		if len(tr) > 10 {
			tr = tr[len(tr)-10:]
		}
		var sb strings.Builder
		for _, e := range tr {
			fmt.Fprintf(&sb, " %d@%s", e.Worker, e.Point)
		}
		return sb.String()
	}
	// check evaluates the oracles at a quiescent point.
	check := func() string {
		if len(findings) > 0 {
			return findings[0]
		}
		if v := inner.Violations(); len(v) > 0 {
			return "buffer pool misuse: " + v[0]
		}
		if st, _ := c.State(vfC05SConsumer); st == sched.Running {
			// durably blocked in its channel receive (r.last is nil there, so
			// readPos is a message boundary)
			if m.done > m.readPos {
				return fmt.Sprintf("lost wake-up: the reader is blocked although %d bytes of completed puts are undelivered (delivered %d, received %d)", m.done-m.readPos, m.readPos, m.done)
			}
			if m.termDone != nil {
				return fmt.Sprintf("lost wake-up: the reader is blocked although the terminal %v was received (delivered %d of %d bytes)", m.termDone, m.readPos, m.begun)
			}
			classes["reader_blocked"] = true
		}
		return ""
	}
	windowPuts := 0
	loadInPutNo := -1 // value of putsDone when the reader's load() last ran inside a put window
	for {
		pSt, pPt := c.State(vfC05SProducer)
		rSt, rPt := c.State(vfC05SConsumer)
		prodInPut := pSt == sched.Parked && m.inPut       // parked at recvbuf.put.begin or in the pool inside put
		inWindow := rSt == sched.Parked && rPt == "recvbuf.load.begin" // between channel receive and load
		puts0, comp0, backlog0, term0 := m.putsDone, compactions, len(rb.backlog), m.termDone
		st := c.Step()
		switch st.Kind {
		case sched.Released:
			steps++
			rSt1, rPt1 := c.State(vfC05SConsumer)
			if st.Worker == vfC05SConsumer {
				if prodInPut {
					unlocked := strings.HasPrefix(pPt, "pool.")
					if st.Point == "recvbuf.load.begin" {
						classes["load_inside_put_window"] = true
						loadInPutNo = m.putsDone
						if unlocked {
							classes["load_inside_unlocked_put"] = true
						}
					}
					if st.Point == "op" && rSt1 == sched.Parked && rPt1 == "recvbuf.load.begin" {
						classes["receive_inside_put_window"] = true
						if unlocked {
							classes["receive_inside_unlocked_put"] = true
						}
					}
				}
				if st.Point == "recvbuf.load.begin" {
					if windowPuts > 0 {
						classes["load_after_put_in_window"] = true
					}
					windowPuts = 0
				}
			} else {
				ran := st.Point != "op" || m.putsDone > puts0
				if inWindow && ran {
					windowPuts += max(1, m.putsDone-puts0)
					classes["put_between_receive_and_load"] = true
					if m.putsDone-puts0 >= 2 {
						classes["burst_between_receive_and_load"] = true
					}
					switch {
					case backlog0 == 0:
						classes["window_put_backlog_empty"] = true
					case backlog0 == 1:
						classes["window_put_backlog_one"] = true
					default:
						classes["window_put_backlog_many"] = true
					}
					if compactions > comp0 {
						classes["compaction_between_receive_and_load"] = true
					}
					if term0 == nil && m.termDone != nil {
						classes["terminal_between_receive_and_load"] = true
					}
				}
				if rSt == sched.Running && rSt1 == sched.Parked {
					classes["handoff_to_blocked_reader"] = true
				}
				if compactions > comp0 && loadInPutNo == puts0 {
					// the put the load() overlapped with is the one that compacted
					classes["load_inside_triggering_put"] = true
				}
				if compactions > comp0 && rSt1 != sched.Running && rd.last != nil { // peek: the reader is parked
					classes["compaction_with_partial_last"] = true
				}
				if strings.HasPrefix(st.Point, "pool.") || strings.HasPrefix(pPt, "pool.") {
					classes["producer_yielded_in_pool"] = true
				}
			}
			if msg := check(); msg != "" {
				return finish(vk.Bad("after step %d (worker %d @ %s): %s [trace tail:%s]", steps, st.Worker, st.Point, msg, tail()))
			}
			continue
		case sched.Panicked:
			return finish(vk.Bad("panic: %s", st.Panic))
		case sched.Overrun:
			return finish(vk.Bad("harness: step limit exceeded"))
		case sched.Stuck:
			// the producer never blocks; it always ends with a terminal
			if msg := check(); msg != "" {
				return finish(vk.Bad("at the end (nobody can move): %s [trace tail:%s]", msg, tail()))
			}
			return finish(vk.Bad("harness: workers %v blocked although the model sees no reason", st.Blocked))
		case sched.Done:
		}
		break
	}
	if msg := check(); msg != "" {
		return finish(vk.Bad("final: %s", msg))
	}
	if m.termDone == nil || m.readerErr != m.termDone {
		return finish(vk.Bad("final: the reader ended with %v, the stream's terminal is %v", m.readerErr, m.termDone))
	}
	if m.readPos != m.begun || m.done != m.begun {
		return finish(vk.Bad("final: terminal reported after %d of %d bytes (%d completed)", m.readPos, m.begun, m.done))
	}
	inner.CheckPoison()
	if v := inner.Violations(); len(v) > 0 {
		return finish(vk.Bad("buffer pool misuse: %s", v[0]))
	}
	if out := inner.Outstanding(); len(out) > 0 {
		classes["pooled_buffer_not_released"] = true // not part of the statement; see notes
	}
	if p.Compaction {
		classes["compaction_enabled"] = true
	} else {
		classes["compaction_disabled"] = true
		if compactions > 0 {
			return finish(vk.Bad("compaction happened %d times although it is disabled", compactions))
		}
	}
	if compactions > 0 {
		classes["compaction_happened"] = true
	}
	if compactions > 1 {
		classes["compaction>=2"] = true
	}
	if c.Unused() == 0 {
		classes["schedule_exhausted"] = true
	}
	nt := classes["load_inside_put_window"] || classes["receive_inside_put_window"] || classes["put_between_receive_and_load"]
	return finish(vk.Result{NonTrivial: nt})
}

func TestVerifC05Sched(t *testing.T) {
	vk.Check(t, vk.Unit[vfC05SPlan]{
		ID: "C05", Name: "recvbuf_sched",
		Rule: "real recvBuffer + server-flavour recvBufferReader; a producer worker (1..10, thorough 20, ops: put 1..16384 bytes, ONE-op bursts of 1..2500 puts of 1..M bytes with M in 1..200 around the 56-byte utilisation boundary, one io.EOF / transport error, data puts after it) and a reader worker (cyclic list of 1..10 Read(1..2^30)/ReadMessageHeader(1..64) sizes, may block, runs until it has reported the terminal and once more = full drain) interleaved by a generated schedule at operation starts, recvbuf.put.begin (single puts, the terminal, every Y-th burst put and the W puts around a compaction), recvbuf.load.begin (reader between its channel receive and load()) and inside the tracking pool's Get/Put when recvBuffer.mu is free; compaction enabled in 75% of the cases; oracle = byte-stream ledger + lost-wake-up rule + tracking/poisoning pool; non-trivial = a reader load() or channel receive ran while a put was in progress (producer parked at recvbuf.put.begin or in the pool), or a put ran between the reader's channel receive and its load()",
		Gen:  vfC05SGen, Run: vfC05SRun,
	})
}
