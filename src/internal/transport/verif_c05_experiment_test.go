package transport

// One-off experiment (not a registered unit; runs only with VFC05_EXPERIMENT=1):
// can a peer make the server put two terminals into a stream's recvBuffer?
// See notes/C05.md, "side finding".

import (
	"bytes"
	"context"
	"fmt"
	"net"
	"os"
	"runtime"
	"runtime/debug"
	"testing"
	"time"

	"golang.org/x/net/http2"
	"golang.org/x/net/http2/hpack"
	"google.golang.org/grpc/codes"
	"google.golang.org/grpc/mem"
	"google.golang.org/grpc/status"
)

func TestVerifC05ExperimentDoubleEndStream(t *testing.T) {
	if os.Getenv("VFC05_EXPERIMENT") == "" {
		t.Skip("experiment")
	}
	lis, err := net.Listen("tcp", "127.0.0.1:0")
	if err != nil {
		t.Skipf("no loopback: %v", err)
	}
	defer lis.Close()
	outcome := make(chan string, 1)
	go func() {
		sconn, err := lis.Accept()
		if err != nil {
			outcome <- "accept: " + err.Error()
			return
		}
		st, err := NewServerTransport(sconn, &ServerConfig{BufferPool: mem.DefaultBufferPool(), MaxStreams: 100})
		if err != nil {
			outcome <- "NewServerTransport: " + err.Error()
			return
		}
		defer func() {
			if r := recover(); r != nil {
				outcome <- fmt.Sprintf("PANIC in the server's reader goroutine (HandleStreams): %v\n%s", r, debug.Stack())
				return
			}
			outcome <- "HandleStreams returned normally"
		}()
		st.HandleStreams(context.Background(), func(s *ServerStream) {
			go func() {
				big := make([]byte, 100000)
				err := s.Write([]byte{0, 0, 1, 0x86, 0xa0}, mem.BufferSlice{mem.SliceBuffer(big)}, &WriteOptions{})
				fmt.Println("handler Write:", err)
				err = s.WriteStatus(status.New(codes.OK, ""))
				fmt.Println("handler WriteStatus:", err, "state", s.getState())
			}()
		})
	}()

	conn, err := net.Dial("tcp", lis.Addr().String())
	if err != nil {
		t.Fatal(err)
	}
	defer conn.Close()
	conn.Write([]byte(http2.ClientPreface))
	fr := http2.NewFramer(conn, conn)
	// the server may not send any DATA: its trailers stay queued behind the response message
	fr.WriteSettings(http2.Setting{ID: http2.SettingInitialWindowSize, Val: 0})
	go func() {
		for {
			f, err := fr.ReadFrame()
			if err != nil {
				fmt.Println("client read:", err)
				return
			}
			fmt.Printf("client got %v\n", f.Header())
			if r, ok := f.(*http2.RSTStreamFrame); ok {
				fmt.Println("  rst code", r.ErrCode)
			}
		}
	}()
	var hb bytes.Buffer
	enc := hpack.NewEncoder(&hb)
	for _, f := range []hpack.HeaderField{{Name: ":method", Value: "POST"}, {Name: ":scheme", Value: "http"}, {Name: ":path", Value: "/svc/method"}, {Name: ":authority", Value: "x"}, {Name: "content-type", Value: "application/grpc"}, {Name: "te", Value: "trailers"}} {
		enc.WriteField(f)
	}
	fr.WriteHeaders(http2.HeadersFrameParam{StreamID: 1, BlockFragment: hb.Bytes(), EndHeaders: true})
	time.Sleep(500 * time.Millisecond) // let the handler call Write and WriteStatus (stream state: done, still registered)
	fr.WriteData(1, true, nil)
	fr.WriteData(1, true, nil)
	select {
	case o := <-outcome:
		fmt.Println("EXPERIMENT OUTCOME:", o)
	case <-time.After(2 * time.Second):
		// HandleStreams' own deferred function waits for loopy to exit before a
		// panic can propagate; loopy exits once the connection is closed.
		buf := make([]byte, 1<<20)
		buf = buf[:runtime.Stack(buf, true)]
		for _, g := range bytes.Split(buf, []byte("\n\n")) {
			if bytes.Contains(g, []byte("HandleStreams")) && bytes.Contains(g, []byte("http2Server")) {
				fmt.Printf("--- server reader goroutine:\n%s\n---\n", g)
			}
		}
		fmt.Println("no outcome within 2s; closing the client connection")
		conn.Close()
		select {
		case o := <-outcome:
			fmt.Println("EXPERIMENT OUTCOME (after closing the connection):", o)
		case <-time.After(3 * time.Second):
			fmt.Println("EXPERIMENT OUTCOME: none")
		}
	}
}
