package grpcsync

// C57 (refcounted unit): a RefCounted resource runs its cleanup exactly once
// when the count reaches zero, cannot be re-acquired afterwards, and the count
// never goes negative.
//
// White-box (reads rc.refCount) with the cooperative scheduler kit: every
// worker parks before each operation and inside TryIncrement at the hook
// point refcounted.tryInc.afterLoad (between the load and the CAS); the plan's
// schedule list decides which parked worker runs next, so the interleaving is
// a plan value. Workers only perform legal calls: Increment/Decrement only
// while they hold a reference themselves.

import (
	"fmt"
	"sort"
	"sync"
	"testing"

	"google.golang.org/grpc/internal/verifkit/sched"
	"google.golang.org/grpc/internal/verifkit/vk"
	"pgregory.net/rapid"
)

type vfC57RcPlan struct {
	// Workers[w] is the op list of worker w: "try" (TryIncrement), "inc"
	// (Increment, skipped unless the worker holds a reference), "dec"
	// (Decrement, skipped unless it holds one). Worker 0 owns the initial
	// reference. Every worker finally releases what it still holds.
	Workers  [][]string `json:"workers"`
	Schedule []int      `json:"schedule"`
}

const vfC57Hook = "refcounted.tryInc.afterLoad"

func vfC57GenRc(rt *rapid.T) vfC57RcPlan {
	var p vfC57RcPlan
	nw := rapid.IntRange(2, vk.Pick(4, 6)).Draw(rt, "workers")
	total := 0
	for w := 0; w < nw; w++ {
		n := rapid.IntRange(1, vk.Pick(5, 10)).Draw(rt, "nops")
		var ops []string
		for i := 0; i < n; i++ {
			var k string
			if w == 0 && i == 0 && rapid.Bool().Draw(rt, "dropfirst") {
				k = "dec" // the owner releases early: zero is reached while others still try
			} else {
				k = rapid.SampledFrom([]string{"try", "try", "try", "inc", "dec", "dec"}).Draw(rt, "op")
			}
			ops = append(ops, k)
		}
		total += n
		p.Workers = append(p.Workers, ops)
	}
	p.Schedule = sched.GenSchedule(rt, "sched", 3*total+4, nw, 3)
	return p
}

func vfC57RunRc(t *testing.T, p vfC57RcPlan) vk.Result {
	var viol string
	var classes = map[string]bool{}
	nt := false
	steps := 0
	msg := vk.Bubble(t, func(t *testing.T) {
		var mu sync.Mutex
		bad := func(format string, a ...any) {
			mu.Lock()
			if viol == "" {
				viol = fmt.Sprintf(format, a...)
			}
			mu.Unlock()
		}
		onZero := 0
		var rc *RefCounted[*int]
		val := new(int)
		rc = NewRefCounted(val, func() {
			mu.Lock()
			onZero++
			mu.Unlock()
			if c := rc.refCount.Load(); c != 0 {
				bad("onZero ran while the count is %d", c)
			}
		})
		c := sched.New(p.Schedule)
		defer c.Close()
		c.Filter = func(point string) bool { return point == vfC57Hook }
		// model (only one worker runs at a time, mu is for the race detector)
		H := 1       // references held by all workers
		dead := false // the count reached zero
		tries := 0
		nw := len(p.Workers)
		for w := 0; w < nw; w++ {
			ops := p.Workers[w]
			held := 0
			if w == 0 {
				held = 1
			}
			dec := func(what string) {
				mu.Lock()
				before, z := H, onZero
				mu.Unlock()
				if z != 0 {
					bad("worker %d %s: cleanup already ran although %d reference(s) are held", w, what, before)
				}
				// is another worker inside TryIncrement right now?
				if before == 1 {
					for o := 0; o < nw; o++ {
						if st, pt := c.State(o); o != w && st == sched.Parked && pt == vfC57Hook {
							classes["zero_reached_while_tryincrement_between_load_and_cas"] = true
							nt = true
						}
					}
				}
				rc.Decrement()
				held--
				mu.Lock()
				H--
				if H == 0 {
					dead = true
					if onZero != 1 {
						bad("worker %d %s: last reference released but cleanup ran %d times", w, what, onZero)
					}
				} else if onZero != 0 {
					bad("worker %d %s: cleanup ran although %d reference(s) are still held", w, what, H)
				}
				mu.Unlock()
			}
			c.Go(w, func() {
				for i, op := range ops {
					c.Yield("op")
					switch op {
					case "try":
						mu.Lock()
						tries++
						mu.Unlock()
						ok := rc.TryIncrement()
						mu.Lock()
						d, z := dead, onZero
						if ok {
							H++
						}
						mu.Unlock()
						if ok {
							held++
							if d || z > 0 {
								bad("worker %d op %d: TryIncrement succeeded after the count had reached zero (cleanup ran %d times)", w, i, z)
							}
							classes["try_ok"] = true
						} else {
							if !d {
								bad("worker %d op %d: TryIncrement failed although the count never reached zero", w, i)
							}
							classes["try_refused_dead"] = true
						}
						if rc.Value() != val {
							bad("Value() changed")
						}
					case "inc":
						if held > 0 {
							rc.Increment()
							held++
							mu.Lock()
							H++
							mu.Unlock()
						}
					case "dec":
						if held > 0 {
							dec(fmt.Sprintf("op %d", i))
						}
					}
				}
				for held > 0 {
					c.Yield("final")
					dec("final release")
				}
			})
		}
		for {
			st := c.Step()
			steps++
			// quiescent: every worker is parked between operations or at the hook
			mu.Lock()
			h, z, d := H, onZero, dead
			mu.Unlock()
			cnt := int(rc.refCount.Load())
			if cnt < 0 {
				bad("reference count is %d (negative)", cnt)
			}
			if cnt != h {
				bad("reference count is %d but the workers hold %d reference(s)", cnt, h)
			}
			if z > 1 || (z == 1) != d {
				bad("cleanup ran %d times (count reached zero: %v)", z, d)
			}
			if st.Kind == sched.Released && viol == "" {
				continue
			}
			switch st.Kind {
			case sched.Done, sched.Released:
			case sched.Panicked:
				bad("worker panicked: %s", st.Panic)
			default:
				bad("scheduler: %s (blocked workers %v)", st.Kind, st.Blocked)
			}
			break
		}
		if left := c.Kill(); len(left) > 0 && viol == "" {
			bad("workers %v did not finish", left)
		}
		mu.Lock()
		if viol == "" && (H != 0 || onZero != 1) {
			viol = fmt.Sprintf("end: all references released (model holds %d) but cleanup ran %d times", H, onZero)
		}
		mu.Unlock()
		// a CAS retry shows as more hook passes than TryIncrement calls
		hooks := 0
		for _, e := range c.Trace() {
			if e.Point == vfC57Hook {
				hooks++
			}
		}
		if hooks > tries {
			classes["cas_retry"] = true
			nt = true
		}
		if c.Unused() == 0 && len(p.Schedule) > 0 {
			classes["schedule_exhausted"] = true
		}
	})
	if viol != "" {
		return vk.Bad("%s", viol)
	}
	if msg != "" {
		return vk.Bad("bubble did not drain: %s", msg)
	}
	res := vk.Result{NonTrivial: nt, Steps: steps}
	for c := range classes {
		res.Classes = append(res.Classes, c)
	}
	sort.Strings(res.Classes)
	return res
}

func TestVerifC57RefCounted(t *testing.T) {
	vk.Check(t, vk.Unit[vfC57RcPlan]{
		ID: "C57", Name: "refcounted",
		Rule: "bubble + cooperative scheduler: 2-4 (thorough 6) workers x 1-5 (10) ops {TryIncrement, Increment, Decrement} (Increment/Decrement only while the worker holds a reference; worker 0 owns the initial one; everything is released at the end); workers park before every op and at refcounted.tryInc.afterLoad; the schedule list picks the next parked worker. non-trivial = the count reached zero while another worker was parked between TryIncrement's load and CAS, or a CAS retry happened",
		Gen:  vfC57GenRc, Run: vfC57RunRc,
	})
}
