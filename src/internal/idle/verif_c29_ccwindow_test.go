package idle

// C29, unit "ccwindow": calls that arrive while the channel's ExitIdleMode /
// EnterIdleMode callback is still executing.
//
// The unit "idle" (verif_c29_test.go) uses a recording ClientConn whose
// callbacks return at once, and its cooperative scheduler cannot park anybody
// inside them (Manager holds idleMu there). Here the ClientConn callbacks log
// "begin", block on a harness gate until the plan releases them, and log "end";
// everything runs on real goroutines outside a synctest bubble. The plan is a
// list of steps (start an operation and let it run until it returned or is
// blocked; release the callback that is held open; resume an operation parked
// at a verifhook point). Whether a goroutine that has not returned is blocked
// (on idleMu, on a harness gate) rather than still running is decided from a
// runtime.Stack(all) snapshot; there are no wall-clock verdicts: if a state
// cannot be determined within a bounded number of polls the case is discarded.
//
// The oracle is a scan of the event log (appended under one harness lock); it
// does not look at the Manager's fields.

import (
	"bytes"
	"fmt"
	"runtime"
	"runtime/debug"
	"sort"
	"testing"
	"time"

	"google.golang.org/grpc/internal/verifhook"
	"google.golang.org/grpc/internal/verifkit/sched"
	"google.golang.org/grpc/internal/verifkit/vk"
	"pgregory.net/rapid"
)

type vfC29WStep struct {
	// Op: begin (OnCallBegin on a free RPC slot), end (OnCallEnd on a slot whose
	// OnCallBegin returned), connect (Manager.ExitIdleMode, as ClientConn.Connect),
	// fire (run the armed idle timer's callback), close (Manager.Close, once),
	// force (EnterIdleModeForTesting), release (let the held ClientConn callback
	// return), resume (let an operation parked at a verifhook point continue).
	Op string `json:"op"`
	// W is a relative selector: slot (mod the number of candidates), k-th parked
	// operation, k-th held callback.
	W int `json:"w,omitempty"`
	// Pause: the operation's goroutine parks the first time it reaches this
	// idle.* verifhook point (all of them are outside idleMu).
	Pause string `json:"pause,omitempty"`
}

type vfC29WPlan struct {
	Workers     int          `json:"workers"`      // RPC slots (1..4)
	StartActive bool         `json:"start_active"` // Dial path: UnsafeSetNotIdle right after NewManager
	NoTimeout   bool         `json:"no_timeout"`   // idle timeout 0 = idleness disabled (no timer is ever armed)
	Steps       []vfC29WStep `json:"steps"`
}

var vfC29WPoints = map[string][]string{
	"begin":   {"idle.begin.afterAddPositive", "idle.begin.afterAddNegative", "idle.exit.beforeLock"},
	"end":     {"idle.end.begin", "idle.end.beforeDecr"},
	"connect": {"idle.exit.beforeLock"},
	"fire":    {"idle.timeout.afterCountCheck", "idle.timeout.afterActivityCheck", "idle.tryEnter.afterCAS"},
	"force":   {"idle.tryEnter.afterCAS"},
}

// ---------------------------------------------------------------- generator

func vfC29WGen(rt *rapid.T) vfC29WPlan {
	u := func(label string, lo, hi int) int { return sched.Uniform(rt, label, lo, hi) }
	p := vfC29WPlan{}
	p.Workers = u("workers", 2, 4)
	p.StartActive = u("start_active", 0, 3) == 0
	p.NoTimeout = u("no_timeout", 0, 11) == 0
	withForce := u("with_force", 0, 4) == 0

	op := func(name string) vfC29WStep {
		s := vfC29WStep{Op: name, W: u("w", 0, 3)}
		if pts := vfC29WPoints[name]; len(pts) > 0 && u("pause?", 0, 5) == 0 {
			s.Pause = pts[u("pause", 0, len(pts)-1)]
		}
		return s
	}
	// intruder: an operation issued while (the generator hopes) a callback is held open.
	intruder := func() vfC29WStep {
		switch k := u("intruder", 0, 15); {
		case k < 8:
			return op("begin")
		case k < 10:
			return op("connect")
		case k < 12:
			return op("end")
		case k < 13:
			return op("fire")
		case k < 14:
			return op("resume")
		case k < 15:
			if withForce {
				return op("force")
			}
			return op("begin")
		default:
			if u("really_close", 0, 1) == 0 {
				return op("close")
			}
			return op("begin")
		}
	}
	noise := func() vfC29WStep {
		names := []string{"begin", "begin", "end", "end", "connect", "fire", "fire", "release", "release", "resume", "begin", "close"}
		if withForce {
			names = append(names, "force", "force")
		}
		k := u("noise", 0, len(names)+2)
		if k >= len(names) {
			k = 0
		}
		if names[k] == "close" && u("really_close", 0, 2) != 0 {
			return op("release")
		}
		return op(names[k])
	}
	nblocks := u("nblocks", 1, vk.Pick(4, 7))
	for b := 0; b < nblocks; b++ {
		switch u("block", 0, 9) {
		case 0, 1, 2, 3: // exit window: somebody takes the channel out of idle, others arrive meanwhile
			if u("opener", 0, 3) == 0 {
				p.Steps = append(p.Steps, op("connect"))
			} else {
				p.Steps = append(p.Steps, op("begin"))
			}
			for k, n := 0, u("nintr", 1, 3); k < n; k++ {
				p.Steps = append(p.Steps, intruder())
			}
			p.Steps = append(p.Steps, op("release"))
			if u("rel2", 0, 2) == 0 {
				p.Steps = append(p.Steps, op("release"))
			}
		case 4, 5, 6, 7: // enter window: all RPCs end, the timer fires (twice: the first expiry only clears the activity bit)
			for k := 0; k < p.Workers; k++ {
				p.Steps = append(p.Steps, vfC29WStep{Op: "end", W: k})
			}
			if withForce && u("force_enter", 0, 2) == 0 {
				p.Steps = append(p.Steps, op("force"))
			} else {
				p.Steps = append(p.Steps, op("fire"), op("fire"))
			}
			for k, n := 0, u("nintr", 1, 3); k < n; k++ {
				p.Steps = append(p.Steps, intruder())
			}
			p.Steps = append(p.Steps, op("release"), op("release"))
		default:
			for k, n := 0, u("nnoise", 1, 5); k < n; k++ {
				p.Steps = append(p.Steps, noise())
			}
		}
	}
	return p
}

// ------------------------------------------------------------------ harness

type vfC29WEvent struct {
	kind   string // BeginCall BeginRet EndCall EndRet ConnectCall ConnectRet TimerStart TimerRet ForceCall ForceRet CloseCall CloseRet ExitBegin ExitEnd EnterBegin EnterEnd Park
	actor  int    // id of the operation (goroutine) that logged it, -1 if not an operation of this case
	worker int    // RPC slot for Begin*/End*
	point  string // Park
}

type vfC29WActor struct {
	id       int
	kind     string // begin end connect fire force close
	worker   int
	gid      uint64
	pause    string
	parkedAt string
	resume   chan struct{}
	ready    chan struct{}
	done     bool
	panicMsg string
}

type vfC29WTimer struct {
	tm *time.Timer
	f  func()
}

type vfC29WGate struct {
	ch    chan struct{}
	actor int
}

type vfC29WH struct {
	// lock is a channel-based mutex (acquire = send) so that a goroutine waiting
	// for it never shows up as "sync.Mutex.Lock" in a goroutine dump: that state
	// then always means idleMu.
	lock     chan struct{}
	log      []vfC29WEvent
	actors   []*vfC29WActor
	byGID    map[uint64]*vfC29WActor
	gates    []vfC29WGate
	timers   []*vfC29WTimer
	draining bool
	mainGID  uint64
	buf      []byte
	polls    int
}

func (h *vfC29WH) acquire() { h.lock <- struct{}{} }
func (h *vfC29WH) release() { <-h.lock }

func vfC29WGoid() uint64 {
	var buf [64]byte
	n := runtime.Stack(buf[:], false)
	var id uint64
	for i := len("goroutine "); i < n; i++ {
		ch := buf[i]
		if ch < '0' || ch > '9' {
			break
		}
		id = id*10 + uint64(ch-'0')
	}
	return id
}

// ev appends an event on behalf of the calling goroutine.
func (h *vfC29WH) ev(kind string, worker int) {
	gid := vfC29WGoid()
	h.acquire()
	id := -1
	if a := h.byGID[gid]; a != nil {
		id = a.id
	}
	h.log = append(h.log, vfC29WEvent{kind: kind, actor: id, worker: worker})
	h.release()
}

// callback is the body of the recording ClientConn's ExitIdleMode/EnterIdleMode:
// log begin, block on a fresh gate until the harness releases it, log end.
func (h *vfC29WH) callback(kind string) {
	gid := vfC29WGoid()
	h.acquire()
	a := h.byGID[gid]
	id := -1
	if a != nil {
		id = a.id
	}
	h.log = append(h.log, vfC29WEvent{kind: kind + "Begin", actor: id})
	if a == nil || h.draining {
		h.log = append(h.log, vfC29WEvent{kind: kind + "End", actor: id})
		h.release()
		return
	}
	g := make(chan struct{})
	h.gates = append(h.gates, vfC29WGate{ch: g, actor: id})
	h.release()
	<-g
	h.acquire()
	h.log = append(h.log, vfC29WEvent{kind: kind + "End", actor: id})
	h.release()
}

type vfC29WCC struct{ h *vfC29WH }

func (cc vfC29WCC) ExitIdleMode()  { cc.h.callback("Exit") }
func (cc vfC29WCC) EnterIdleMode() { cc.h.callback("Enter") }

// hook is the verifhook handler: an operation parks at the point named in its step.
func (h *vfC29WH) hook(point string) {
	gid := vfC29WGoid()
	h.acquire()
	a := h.byGID[gid]
	if a == nil || a.pause != point || h.draining {
		h.release()
		return
	}
	a.pause = ""
	a.parkedAt = point
	h.log = append(h.log, vfC29WEvent{kind: "Park", actor: a.id, point: point})
	ch := a.resume
	h.release()
	<-ch
}

// start runs f as a new operation on its own goroutine and returns once the
// goroutine is registered (it is then running; call settle).
func (h *vfC29WH) start(kind string, worker int, pause string, f func()) *vfC29WActor {
	a := &vfC29WActor{kind: kind, worker: worker, pause: pause, resume: make(chan struct{}), ready: make(chan struct{})}
	h.acquire()
	a.id = len(h.actors)
	h.actors = append(h.actors, a)
	h.release()
	go func() {
		gid := vfC29WGoid()
		h.acquire()
		a.gid = gid
		h.byGID[gid] = a
		h.release()
		close(a.ready)
		defer func() {
			r := recover()
			h.acquire()
			if r != nil {
				a.panicMsg = fmt.Sprintf("%v\n%s", r, debug.Stack())
			}
			a.done = true
			delete(h.byGID, gid)
			h.release()
		}()
		f()
	}()
	<-a.ready
	return a
}

// snapshot returns goroutine id -> wait state ("running", "runnable", "chan
// receive", "sync.Mutex.Lock", ...) for all goroutines of the process.
func (h *vfC29WH) snapshot() map[uint64]string {
	var n int
	for {
		n = runtime.Stack(h.buf, true)
		if n < len(h.buf) {
			break
		}
		h.buf = make([]byte, 2*len(h.buf))
	}
	res := map[uint64]string{}
	data := h.buf[:n]
	for len(data) > 0 {
		line := data
		if i := bytes.IndexByte(data, '\n'); i >= 0 {
			line, data = data[:i], data[i+1:]
		} else {
			data = nil
		}
		if !bytes.HasPrefix(line, []byte("goroutine ")) || !bytes.HasSuffix(line, []byte("]:")) {
			continue
		}
		rest := line[len("goroutine "):]
		var id uint64
		i := 0
		for ; i < len(rest) && rest[i] >= '0' && rest[i] <= '9'; i++ {
			id = id*10 + uint64(rest[i]-'0')
		}
		lb := bytes.IndexByte(rest, '[')
		if i == 0 || lb < 0 {
			continue
		}
		st := rest[lb+1 : len(rest)-2]
		if c := bytes.IndexByte(st, ','); c >= 0 {
			st = st[:c]
		}
		res[id] = string(st)
	}
	return res
}

func vfC29WMutexWait(st string) bool { return st == "sync.Mutex.Lock" || st == "sync.RWMutex.Lock" }

// settle waits until every operation that has not returned is blocked: on a
// harness gate / park channel ("chan receive") or on idleMu. It returns, per
// unfinished operation id, the wait state. ok == false: undetermined within the
// poll budget (the caller discards the case).
func (h *vfC29WH) settle() (states map[int]string, ok bool) {
	for poll := 0; poll < 6000; poll++ {
		h.polls++
		// The set of unfinished operations is read BEFORE the snapshot: an
		// operation flagged done before it has no further effect; one not yet
		// flagged must be blocked in the snapshot. If both hold, the whole system
		// was quiescent at the instant of the (stop-the-world) snapshot, and only
		// the harness can change that.
		h.acquire()
		var pending []*vfC29WActor
		for _, a := range h.actors {
			if !a.done {
				pending = append(pending, a)
			}
		}
		h.release()
		if len(pending) == 0 {
			return map[int]string{}, true
		}
		snap := h.snapshot()
		states = map[int]string{}
		all := true
		for _, a := range pending {
			st, present := snap[a.gid]
			if !present || !(st == "chan receive" || vfC29WMutexWait(st)) {
				all = false
				break
			}
			states[a.id] = st
		}
		if all {
			return states, true
		}
		if poll < 200 {
			runtime.Gosched()
		} else {
			d := time.Duration(poll-199) * 5 * time.Microsecond
			if d > time.Millisecond {
				d = time.Millisecond
			}
			time.Sleep(d) // back-off only; never a verdict
		}
	}
	return nil, false
}

// abandon lets everything run to completion (best effort) after a verdict or a discard.
func (h *vfC29WH) abandon() {
	h.acquire()
	h.draining = true
	for _, g := range h.gates {
		close(g.ch)
	}
	h.gates = nil
	for _, a := range h.actors {
		if a.parkedAt != "" {
			a.parkedAt = ""
			close(a.resume)
		}
	}
	h.release()
	for i := 0; i < 2000; i++ {
		h.acquire()
		left := 0
		for _, a := range h.actors {
			if !a.done {
				left++
			}
		}
		h.release()
		if left == 0 {
			return
		}
		if i < 100 {
			runtime.Gosched()
		} else {
			time.Sleep(200 * time.Microsecond)
		}
	}
	// goroutines that are still blocked (a deadlocked mutant) are leaked; they
	// only reference this case's objects.
}

// ------------------------------------------------------------------- oracle

type vfC29WOracle struct {
	processed int
	mode      string // idle exiting active entering
	active    map[int]bool
	beganOK   map[int]bool // slot -> its current OnCallBegin was invoked before Close was called
	closeCall bool
	closeRet  bool
	enters    int
	exits     int
	classes   map[string]bool
	nt        bool
}

func (o *vfC29WOracle) scan(evs []vfC29WEvent) string {
	for _, e := range evs[o.processed:] {
		o.processed++
		switch e.kind {
		case "BeginCall":
			o.beganOK[e.worker] = !o.closeCall
			if o.closeCall {
				o.classes["rpc_after_close"] = true
				break
			}
			switch o.mode {
			case "exiting":
				o.nt = true
				o.classes["call_begin_during_cc_exit"] = true
			case "entering":
				o.nt = true
				o.classes["call_begin_during_cc_enter"] = true
			case "idle":
				o.classes["call_begin_finds_idle"] = true
			}
		case "BeginRet":
			if !o.beganOK[e.worker] {
				break
			}
			o.active[e.worker] = true
			if o.mode != "active" && !o.closeCall {
				what := map[string]string{"idle": "is in idle mode", "exiting": "is still exiting idle mode (ClientConn.ExitIdleMode has not returned)", "entering": "is entering idle mode (ClientConn.EnterIdleMode has not returned)"}[o.mode]
				return fmt.Sprintf("OnCallBegin of RPC slot %d returned while the channel %s (enters=%d exits=%d)", e.worker, what, o.enters, o.exits)
			}
		case "EndCall":
			delete(o.active, e.worker)
		case "ConnectCall":
			if o.mode == "exiting" || o.mode == "entering" {
				o.classes["connect_during_cc_"+map[string]string{"exiting": "exit", "entering": "enter"}[o.mode]] = true
			}
		case "TimerStart":
			o.classes["timer_fired"] = true
			if o.mode == "exiting" || o.mode == "entering" {
				o.classes["timer_fired_during_cc_callback"] = true
			}
		case "CloseCall":
			o.closeCall = true
			if o.mode == "exiting" || o.mode == "entering" {
				o.classes["close_during_cc_callback"] = true
			}
		case "CloseRet":
			o.closeRet = true
			o.classes["closed"] = true
			if o.mode == "exiting" || o.mode == "entering" {
				// not in the statement (clientconn.go relies on it, though): counted only
				o.classes["close_returned_during_cc_callback"] = true
			}
		case "ExitBegin":
			o.exits++
			if o.mode != "idle" {
				return fmt.Sprintf("ClientConn.ExitIdleMode called while the channel is %s (enter/exit overlap or do not alternate; enters=%d exits=%d)", o.mode, o.enters, o.exits)
			}
			o.mode = "exiting"
			if o.closeRet {
				o.classes["cc_call_after_close_returned"] = true
			}
			if o.enters > 0 {
				o.classes["exit_after_enter"] = true
			}
		case "ExitEnd":
			o.mode = "active"
		case "EnterBegin":
			o.enters++
			if o.mode != "active" {
				return fmt.Sprintf("ClientConn.EnterIdleMode called while the channel is %s (enter/exit overlap or do not alternate; enters=%d exits=%d)", o.mode, o.enters, o.exits)
			}
			if len(o.active) > 0 {
				ids := make([]int, 0, len(o.active))
				for id := range o.active {
					ids = append(ids, id)
				}
				sort.Ints(ids)
				return fmt.Sprintf("ClientConn.EnterIdleMode called while RPC slot(s) %v are between OnCallBegin's return and OnCallEnd", ids)
			}
			o.mode = "entering"
			o.classes["entered_idle"] = true
			if o.closeRet {
				o.classes["cc_call_after_close_returned"] = true
			}
		case "EnterEnd":
			o.mode = "idle"
		case "Park":
			o.classes["op_parked_at_point"] = true
		}
	}
	return ""
}

// ---------------------------------------------------------------------- run

func vfC29WRun(t *testing.T, p vfC29WPlan) vk.Result {
	if p.Workers < 1 || p.Workers > 4 || len(p.Steps) > 80 {
		return vk.Result{Discard: true}
	}
	h := &vfC29WH{lock: make(chan struct{}, 1), byGID: map[uint64]*vfC29WActor{}, buf: make([]byte, 128<<10), mainGID: vfC29WGoid()}

	saved := timeAfterFunc
	timeAfterFunc = func(d time.Duration, f func()) *time.Timer {
		// Never fires on its own; the plan's "fire" steps run f. Durations are
		// ignored: the configured timeout is 1ns, so "the timer has expired" is a
		// sound assumption at any later moment.
		tm := time.AfterFunc(1<<62, func() {})
		gid := vfC29WGoid()
		h.acquire()
		if h.byGID[gid] != nil || gid == h.mainGID {
			h.timers = append(h.timers, &vfC29WTimer{tm: tm, f: f})
		}
		h.release()
		return tm
	}
	verifhook.SetHandler(h.hook)
	defer func() {
		verifhook.ClearHandler()
		timeAfterFunc = saved
		h.acquire()
		for _, tr := range h.timers {
			tr.tm.Stop()
		}
		h.release()
	}()

	timeout := time.Duration(1)
	if p.NoTimeout {
		timeout = 0
	}
	m := NewManager(vfC29WCC{h}, timeout)
	o := &vfC29WOracle{mode: "idle", active: map[int]bool{}, beganOK: map[int]bool{}, classes: map[string]bool{}}
	if p.StartActive {
		m.UnsafeSetNotIdle()
		o.mode = "active"
		o.classes["start_active"] = true
	}
	if p.NoTimeout {
		o.classes["no_timeout"] = true
	}

	inflight := make([]*vfC29WActor, p.Workers) // per slot: its running OnCallBegin/OnCallEnd
	rpcOpen := make([]bool, p.Workers)          // per slot: OnCallBegin returned, OnCallEnd not yet called
	closed := false
	deadlocked := false // operations other than OnCallBegin wait for idleMu forever (not asserted)
	connects, forces := 0, 0
	steps := 0

	finish := func(r vk.Result) vk.Result {
		for k := range o.classes {
			r.Classes = append(r.Classes, k)
		}
		sort.Strings(r.Classes)
		r.Steps = steps
		return r
	}
	// check: settle, then oracle scan, then liveness.
	check := func() (vk.Result, bool) {
		states, ok := h.settle()
		if !ok {
			h.abandon()
			return vk.Result{Discard: true}, true
		}
		h.acquire()
		evs := append([]vfC29WEvent(nil), h.log...)
		ngates := len(h.gates)
		nparked := 0
		panicMsg := ""
		type blocked struct {
			a  *vfC29WActor
			st string
		}
		var onMutex []blocked
		for _, a := range h.actors {
			if a.panicMsg != "" && panicMsg == "" {
				panicMsg = fmt.Sprintf("operation %d (%s) panicked: %s", a.id, a.kind, a.panicMsg)
			}
			if a.done {
				continue
			}
			if a.parkedAt != "" {
				nparked++
			}
			if vfC29WMutexWait(states[a.id]) {
				onMutex = append(onMutex, blocked{a, states[a.id]})
			}
		}
		h.release()
		for w, a := range inflight {
			if a == nil {
				continue
			}
			h.acquire()
			done := a.done
			h.release()
			if done {
				rpcOpen[w] = a.kind == "begin"
				inflight[w] = nil
			}
		}
		if panicMsg != "" {
			h.abandon()
			return finish(vk.Bad("%s", panicMsg)), true
		}
		if msg := o.scan(evs); msg != "" {
			h.abandon()
			return finish(vk.Bad("%s", msg)), true
		}
		for _, b := range onMutex {
			if b.a.kind == "begin" && ngates > 0 {
				o.classes["call_begin_waits_for_cc_callback"] = true
			}
		}
		if ngates == 0 && nparked == 0 && len(onMutex) > 0 {
			// Nobody is inside a ClientConn callback, nobody is parked by the
			// harness, nobody is running: whoever waits for idleMu waits forever.
			// The statement is about RPC starts, so only a stuck OnCallBegin is a
			// violation; other stuck operations are counted (a later OnCallBegin
			// that needs idleMu will then get stuck, too).
			var desc []string
			rpcStuck := false
			for _, b := range onMutex {
				desc = append(desc, fmt.Sprintf("op %d (%s, slot %d) [%s]", b.a.id, b.a.kind, b.a.worker, b.st))
				rpcStuck = rpcStuck || b.a.kind == "begin"
			}
			if rpcStuck {
				h.abandon()
				return finish(vk.Bad("deadlock: %v blocked on idleMu although every ClientConn callback has returned and no other goroutine is running: OnCallBegin never returns", desc)), true
			}
			o.classes["deadlock_without_rpc_start"] = true
			deadlocked = true
		}
		return vk.Result{}, false
	}

	for _, s := range p.Steps {
		w := s.W
		if w < 0 {
			w = -(w + 1)
		}
		applied := false
		switch s.Op {
		case "begin":
			for k := 0; k < p.Workers; k++ {
				slot := (w + k) % p.Workers
				if inflight[slot] == nil && !rpcOpen[slot] {
					inflight[slot] = h.start("begin", slot, s.Pause, func() {
						h.ev("BeginCall", slot)
						m.OnCallBegin()
						h.ev("BeginRet", slot)
					})
					applied = true
					break
				}
			}
		case "end":
			for k := 0; k < p.Workers; k++ {
				slot := (w + k) % p.Workers
				if inflight[slot] == nil && rpcOpen[slot] {
					rpcOpen[slot] = false
					inflight[slot] = h.start("end", slot, s.Pause, func() {
						h.ev("EndCall", slot)
						m.OnCallEnd()
						h.ev("EndRet", slot)
					})
					applied = true
					break
				}
			}
		case "connect":
			if connects < 4 {
				connects++
				h.start("connect", -1, s.Pause, func() {
					h.ev("ConnectCall", -1)
					m.ExitIdleMode()
					h.ev("ConnectRet", -1)
				})
				applied = true
			}
		case "force":
			if forces < 4 {
				forces++
				o.classes["with_EnterIdleModeForTesting"] = true
				h.start("force", -1, s.Pause, func() {
					h.ev("ForceCall", -1)
					m.EnterIdleModeForTesting()
					h.ev("ForceRet", -1)
				})
				applied = true
			}
		case "fire":
			var rec *vfC29WTimer
			h.acquire()
			for i := len(h.timers) - 1; i >= 0; i-- {
				// Stop reports true iff the timer was still armed (not stopped by
				// the Manager, not fired by an earlier step).
				if h.timers[i].tm.Stop() {
					rec = h.timers[i]
					break
				}
			}
			h.release()
			if rec != nil {
				h.start("fire", -1, s.Pause, func() {
					h.ev("TimerStart", -1)
					rec.f()
					h.ev("TimerRet", -1)
				})
				applied = true
			}
		case "close":
			if !closed {
				closed = true
				h.start("close", -1, "", func() {
					h.ev("CloseCall", -1)
					m.Close()
					h.ev("CloseRet", -1)
				})
				applied = true
			}
		case "release":
			h.acquire()
			if n := len(h.gates); n > 0 {
				i := w % n
				close(h.gates[i].ch)
				h.gates = append(h.gates[:i:i], h.gates[i+1:]...)
				applied = true
			}
			h.release()
		case "resume":
			h.acquire()
			var parked []*vfC29WActor
			for _, a := range h.actors {
				if !a.done && a.parkedAt != "" {
					parked = append(parked, a)
				}
			}
			if n := len(parked); n > 0 {
				a := parked[w%n]
				a.parkedAt = ""
				close(a.resume)
				applied = true
			}
			h.release()
		}
		if !applied {
			continue
		}
		steps++
		if r, stop := check(); stop {
			return r
		}
	}

	// Drain: release every held callback and parked operation until nothing is
	// left; then every operation must have returned.
	for i := 0; i < 200; i++ {
		h.acquire()
		acted := false
		if len(h.gates) > 0 {
			close(h.gates[0].ch)
			h.gates = h.gates[1:]
			acted = true
		} else {
			for _, a := range h.actors {
				if !a.done && a.parkedAt != "" {
					a.parkedAt = ""
					close(a.resume)
					acted = true
					break
				}
			}
		}
		h.release()
		if !acted {
			break
		}
		if r, stop := check(); stop {
			return r
		}
	}
	h.acquire()
	left := 0
	for _, a := range h.actors {
		if !a.done {
			left++
		}
	}
	h.release()
	if left > 0 {
		h.abandon()
		if deadlocked {
			return finish(vk.Result{NonTrivial: o.nt})
		}
		return finish(vk.Bad("harness: %d operations unfinished after the drain", left))
	}
	if o.enters >= 2 {
		o.classes["entered_idle_twice"] = true
	}
	return finish(vk.Result{NonTrivial: o.nt})
}

func TestVerifC29CCWindow(t *testing.T) {
	vk.Check(t, vk.Unit[vfC29WPlan]{
		ID: "C29", Name: "ccwindow",
		Rule: "real idle.Manager (timeout 1ns or 0, starting idle or via UnsafeSetNotIdle) on real goroutines, outside a bubble; the recording ClientConn's ExitIdleMode/EnterIdleMode log begin, block until the plan releases them, log end; plan = steps over 2-4 RPC slots (OnCallBegin / OnCallEnd), Connect (ExitIdleMode), fire the armed idle timer's callback, Close, EnterIdleModeForTesting (20% of the plans), release the held callback, resume an operation parked at one of the eight idle.* points; after every step the harness waits until each unfinished operation is blocked on idleMu or on a harness channel (goroutine dump; undeterminable => discard); non-trivial = an OnCallBegin (before Close) was issued while a ClientConn ExitIdleMode or EnterIdleMode callback was held open",
		Gen:  vfC29WGen, Run: vfC29WRun,
	})
}
