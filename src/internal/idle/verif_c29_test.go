package idle

// C29: a channel never goes idle under an active RPC; an RPC start that finds
// the channel idle (or entering idle) returns only after the channel has left
// idle mode; enter-idle / exit-idle transitions strictly alternate.
//
// Real idle.Manager with a recording ClientConn, in a synctest bubble (virtual
// clock). RPC workers, a Connect worker, a closer, a clock worker and the timer
// callbacks themselves (registered through the package's timeAfterFunc test
// hook) are cooperative workers interleaved at the idle.* verifhook points by
// the plan's schedule list. Only one goroutine runs at a time, so the event log
// is totally ordered; the oracle is a scan of the log.

import (
	"fmt"
	"sort"
	"sync"
	"testing"
	"time"

	"google.golang.org/grpc/internal/verifkit/sched"
	"google.golang.org/grpc/internal/verifkit/vk"
	"pgregory.net/rapid"
)

type vfC29Plan struct {
	TimeoutNs   int64   `json:"timeout_ns"`   // idle timeout (> 0)
	StartActive bool    `json:"start_active"` // Dial path: UnsafeSetNotIdle right after NewManager
	RPCs        [][]int `json:"rpcs"`         // per RPC worker: one entry per RPC it performs = number of extra scheduling points it idles after that RPC
	Connects    int     `json:"connects"`     // ExitIdleMode calls of the Connect worker
	Clock       []int64 `json:"clock"`        // clock worker: successive advances of virtual time, in per-mille of the timeout (0 => 1 ns)
	ForceIdle   int     `json:"force_idle"`   // EnterIdleModeForTesting calls by a tester worker (beyond the property's quantifier; exercises tryEnterIdleMode(false))
	Close       bool    `json:"close"`        // a closer worker calls Close when the schedule picks it
	Sched       []int   `json:"sched"`
}

const (
	vfC29RPC0    = 0
	vfC29Clock   = 10
	vfC29Connect = 11
	vfC29Closer  = 12
	vfC29Tester  = 13
	vfC29Timer0  = 100
)

func vfC29Gen(rt *rapid.T) vfC29Plan {
	p := vfC29Plan{}
	p.TimeoutNs = rapid.SampledFrom([]int64{1000, int64(time.Millisecond), int64(30 * time.Minute), 1}).Draw(rt, "timeout")
	p.StartActive = sched.Uniform(rt, "start_active", 0, 3) == 0
	nw := []int{1, 1, 2, 2, 3, vk.Pick(2, 4)}[sched.Uniform(rt, "nworkers", 0, 5)]
	for i := 0; i < nw; i++ {
		n := sched.Uniform(rt, "nrpc", 1, vk.Pick(6, 12))
		gaps := make([]int, n)
		for k := range gaps {
			gaps[k] = sched.Uniform(rt, "gap", 0, 8)
		}
		p.RPCs = append(p.RPCs, gaps)
	}
	p.Connects = sched.Uniform(rt, "connects", 0, 2)
	nc := sched.Uniform(rt, "nclock", 3, vk.Pick(10, 20))
	for i := 0; i < nc; i++ {
		p.Clock = append(p.Clock, []int64{1000, 1000, 1000, 1001, 999, 500, 2000, 0, 3000, 1000}[sched.Uniform(rt, "adv", 0, 9)])
	}
	if sched.Uniform(rt, "tester", 0, 3) == 0 {
		p.ForceIdle = sched.Uniform(rt, "force_idle", 1, 3)
	}
	p.Close = sched.Uniform(rt, "close", 0, 7) == 0
	p.Sched = sched.GenSchedule(rt, "sched", vk.Pick(150, 500), 8, 4)
	return p
}

type vfC29Event struct {
	kind   string // BeginCall BeginRet EndCall EndRet Enter Exit ConnectCall ConnectRet CloseCall CloseRet
	worker int
	rpc    int // BeginCall..EndRet: rpc serial number
}

type vfC29CC struct {
	mu  *sync.Mutex
	log *[]vfC29Event
}

func (cc vfC29CC) EnterIdleMode() {
	cc.mu.Lock()
	*cc.log = append(*cc.log, vfC29Event{kind: "Enter", worker: -1})
	cc.mu.Unlock()
}

func (cc vfC29CC) ExitIdleMode() {
	cc.mu.Lock()
	*cc.log = append(*cc.log, vfC29Event{kind: "Exit", worker: -1})
	cc.mu.Unlock()
}

func vfC29Run(t *testing.T, p vfC29Plan) vk.Result {
	if p.TimeoutNs <= 0 || len(p.RPCs) == 0 || len(p.RPCs) > 8 {
		return vk.Result{Discard: true}
	}
	for _, a := range p.Clock {
		if a < 0 || a > 100000 {
			return vk.Result{Discard: true}
		}
	}
	var res vk.Result
	msg := vk.Bubble(t, func(t *testing.T) { res = vfC29Exec(p) })
	if res.Violation == "" && msg != "" {
		return vk.Bad("bubble did not drain: %s", msg)
	}
	return res
}

func vfC29Exec(p vfC29Plan) vk.Result {
	var mu sync.Mutex
	var log []vfC29Event
	ev := func(e vfC29Event) { mu.Lock(); log = append(log, e); mu.Unlock() }

	c := sched.New(p.Sched)
	defer c.Close()

	// Timer callbacks become workers 100, 101, ... in the order the timers are
	// created (deterministic: timers are created by the one running worker).
	timerSeq := 0
	saved := timeAfterFunc
	timeAfterFunc = func(d time.Duration, f func()) *time.Timer {
		id := vfC29Timer0 + timerSeq
		timerSeq++
		return time.AfterFunc(d, func() {
			defer c.Exit()
			c.Enter(id)
			f()
		})
	}
	defer func() { timeAfterFunc = saved }()

	timeout := time.Duration(p.TimeoutNs)
	m := NewManager(vfC29CC{&mu, &log}, timeout)
	if p.StartActive {
		m.UnsafeSetNotIdle()
	}
	defer func() {
		m.Close() // stops a pending timer
		c.Kill()
	}()

	rpcSerial := 0
	for i, gaps := range p.RPCs {
		w, gaps := vfC29RPC0+i, gaps
		c.Go(w, func() {
			for _, gap := range gaps {
				c.Yield("op")
				rpcSerial++ // only one goroutine runs at a time
				id := rpcSerial
				ev(vfC29Event{kind: "BeginCall", worker: w, rpc: id})
				m.OnCallBegin()
				ev(vfC29Event{kind: "BeginRet", worker: w, rpc: id})
				c.Yield("rpc")
				ev(vfC29Event{kind: "EndCall", worker: w, rpc: id})
				m.OnCallEnd()
				ev(vfC29Event{kind: "EndRet", worker: w, rpc: id})
				for g := 0; g < gap && g < 8; g++ {
					c.Yield("gap")
				}
			}
		})
	}
	c.Go(vfC29Clock, func() {
		for _, a := range p.Clock {
			d := time.Duration(a) * timeout / 1000
			if d <= 0 {
				d = 1
			}
			c.Sleep("clock", d)
		}
	})
	if p.Connects > 0 {
		c.Go(vfC29Connect, func() {
			for k := 0; k < p.Connects; k++ {
				c.Yield("op")
				ev(vfC29Event{kind: "ConnectCall", worker: vfC29Connect})
				m.ExitIdleMode()
				ev(vfC29Event{kind: "ConnectRet", worker: vfC29Connect})
			}
		})
	}
	if p.ForceIdle > 0 {
		c.Go(vfC29Tester, func() {
			for k := 0; k < p.ForceIdle && k < 8; k++ {
				c.Yield("op")
				m.EnterIdleModeForTesting()
			}
		})
	}
	if p.Close {
		c.Go(vfC29Closer, func() {
			c.Yield("op")
			ev(vfC29Event{kind: "CloseCall", worker: vfC29Closer})
			m.Close()
			ev(vfC29Event{kind: "CloseRet", worker: vfC29Closer})
		})
	}

	classes := map[string]bool{}
	steps := 0
	processed := 0
	// oracle state
	idle := !p.StartActive
	active := map[int]bool{} // rpc serial -> between BeginRet and EndCall
	beganBeforeClose := map[int]bool{}
	closeCalled, closeReturned := false, false
	enters, exits := 0, 0
	// non-trivial bookkeeping
	timerPoint := func() map[string]bool {
		r := map[string]bool{}
		for id := vfC29Timer0; id < vfC29Timer0+timerSeq; id++ {
			if st, pt := c.State(id); st == sched.Parked {
				r[pt] = true
			}
		}
		if st, pt := c.State(vfC29Tester); st == sched.Parked && pt == "idle.tryEnter.afterCAS" {
			r[pt] = true
		}
		return r
	}
	rpcStartedDuringCheck := map[int]string{} // rpc -> timer point it started under
	ntCAS, ntShort := false, false

	scan := func(tp map[string]bool) string {
		mu.Lock()
		evs := append([]vfC29Event(nil), log[processed:]...)
		processed = len(log)
		mu.Unlock()
		for _, e := range evs {
			switch e.kind {
			case "BeginCall":
				if !closeCalled {
					beganBeforeClose[e.rpc] = true
				}
				if tp["idle.tryEnter.afterCAS"] {
					ntCAS = true
					classes["rpc_began_between_CAS_and_lock"] = true
				}
				for _, pt := range []string{"idle.timeout.afterCountCheck", "idle.timeout.afterActivityCheck"} {
					if tp[pt] {
						rpcStartedDuringCheck[e.rpc] = pt
					}
				}
				if idle {
					classes["rpc_start_finds_idle"] = true
				}
			case "BeginRet":
				if beganBeforeClose[e.rpc] {
					active[e.rpc] = true
					if idle && !closeCalled {
						return fmt.Sprintf("OnCallBegin of RPC %d (worker %d) returned while the channel is in idle mode (enters=%d exits=%d)", e.rpc, e.worker, enters, exits)
					}
				} else {
					classes["rpc_after_close"] = true
				}
			case "EndCall":
				delete(active, e.rpc)
			case "EndRet":
				if pt, ok := rpcStartedDuringCheck[e.rpc]; ok && tp[pt] {
					ntShort = true
					classes["rpc_completed_between_timer_checks"] = true
				}
			case "Enter":
				enters++
				if idle {
					return fmt.Sprintf("EnterIdleMode called while already idle (enter/exit do not alternate; enters=%d exits=%d)", enters, exits)
				}
				if len(active) > 0 {
					ids := make([]int, 0, len(active))
					for id := range active {
						ids = append(ids, id)
					}
					sort.Ints(ids)
					return fmt.Sprintf("EnterIdleMode called while RPC(s) %v are between OnCallBegin's return and OnCallEnd", ids)
				}
				idle = true
				if closeReturned {
					classes["cc_call_after_close_returned"] = true
				}
				classes["entered_idle"] = true
			case "Exit":
				exits++
				if !idle {
					return fmt.Sprintf("ExitIdleMode called while not idle (enter/exit do not alternate; enters=%d exits=%d)", enters, exits)
				}
				idle = false
				if closeReturned {
					classes["cc_call_after_close_returned"] = true
				}
			case "CloseCall":
				closeCalled = true
			case "CloseRet":
				closeReturned = true
				classes["closed"] = true
			}
		}
		return ""
	}
	finish := func(r vk.Result) vk.Result {
		for k := range classes {
			r.Classes = append(r.Classes, k)
		}
		sort.Strings(r.Classes)
		r.Steps = steps
		return r
	}

	for {
		tp := timerPoint()
		st := c.Step()
		switch st.Kind {
		case sched.Released:
			steps++
			if st.Worker >= vfC29Timer0 && st.Point == "start" {
				classes["timer_fired"] = true
			}
			if m := scan(tp); m != "" {
				return finish(vk.Bad("%s", m))
			}
			continue
		case sched.Panicked:
			return finish(vk.Bad("panic: %s", st.Panic))
		case sched.Overrun:
			return finish(vk.Bad("harness: step limit exceeded"))
		case sched.Stuck:
			return finish(vk.Bad("harness: workers %v blocked (the idle manager has no blocking operation)", st.Blocked))
		case sched.Done:
		}
		break
	}
	if m := scan(timerPoint()); m != "" {
		return finish(vk.Bad("%s", m))
	}
	if p.ForceIdle > 0 {
		classes["with_EnterIdleModeForTesting"] = true
	}
	if enters >= 2 {
		classes["entered_idle_twice"] = true
	}
	return finish(vk.Result{NonTrivial: ntCAS || ntShort})
}

func TestVerifC29Idle(t *testing.T) {
	vk.Check(t, vk.Unit[vfC29Plan]{
		ID: "C29", Name: "idle",
		Rule: "real idle.Manager (timeout 1ns..30min virtual, starting idle or via UnsafeSetNotIdle), recording ClientConn; 1-3 RPC workers (1-6 RPCs each: OnCallBegin, yield, OnCallEnd, 0-8 idle scheduling points), clock worker advancing virtual time by 0.5x/1x/1x+-1permille/2x/3x the timeout or 1ns, timer callbacks as workers, 0-2 Connect (ExitIdleMode) calls, in 25% of the cases 1-3 EnterIdleModeForTesting calls, optional Close; interleaved at the eight idle.* points and operation starts by a generated schedule; non-trivial = an RPC began while a timer callback sat between its CAS and its lock in tryEnterIdleMode, or a complete RPC ran while a timer callback sat at one of its two checks",
		Gen:  vfC29Gen, Run: vfC29Run,
	})
}
