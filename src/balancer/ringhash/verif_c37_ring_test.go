package ringhash

// C37: ring construction (order independence, size bounds, proportionality up
// to rounding), ring.pick versus a linear reference, and the picker walk per
// gRFC A61/A76 versus a reference walk.

import (
	"context"
	"fmt"
	"math"
	"math/big"
	"sort"
	"strconv"
	"testing"

	xxhash "github.com/cespare/xxhash/v2"
	"google.golang.org/grpc/balancer"
	"google.golang.org/grpc/connectivity"
	internalgrpclog "google.golang.org/grpc/internal/grpclog"
	iringhash "google.golang.org/grpc/internal/ringhash"
	"google.golang.org/grpc/internal/verifkit/vk"
	"google.golang.org/grpc/metadata"
	"google.golang.org/grpc/resolver"
	"pgregory.net/rapid"
)

type vfC37Ep struct {
	Key    int    `json:"key"`    // hash key "ep<Key>" (distinct per endpoint)
	Weight uint32 `json:"weight"` // >= 1
	State  int    `json:"state"`  // connectivity 0..3 (Idle, Connecting, Ready, TransientFailure)
}

type vfC37Pick struct {
	// Mode 0: xDS request hash from context; 1: request hash header present;
	// 2: header configured but absent -> random hash.
	Mode int `json:"mode"`
	// HashSel selects the request hash: 0 raw value H; 1 hash of ring entry
	// (H mod len) plus D (D in -1..1); used for modes 0 and 2.
	HashSel int    `json:"hash_sel"`
	H       uint64 `json:"h"`
	D       int    `json:"d"`
	// Header value(s) for mode 1.
	Hdr []string `json:"hdr,omitempty"`
}

type vfC37Plan struct {
	Eps   []vfC37Ep   `json:"eps"`
	Min   uint64      `json:"min"`
	Max   uint64      `json:"max"`
	Perm  []int       `json:"perm"` // second insertion order (indices mod remaining)
	Picks []vfC37Pick `json:"picks"`
}

func vfC37GenPlan(rt *rapid.T) vfC37Plan {
	var p vfC37Plan
	n := 1
	switch rapid.IntRange(0, 5).Draw(rt, "nkind") {
	case 0:
		n = rapid.IntRange(1, 4).Draw(rt, "n")
	case 1, 2, 3:
		n = rapid.IntRange(5, 24).Draw(rt, "n")
	default:
		n = rapid.IntRange(5, vk.Pick(120, 200)).Draw(rt, "n")
	}
	shape := rapid.IntRange(0, 6).Draw(rt, "wshape")
	keyBase := rapid.IntRange(0, 1000).Draw(rt, "keybase")
	budget := uint64(math.MaxUint32)
	for i := 0; i < n; i++ {
		var w uint32
		switch shape {
		case 0:
			w = 1
		case 1:
			w = rapid.Uint32Range(1, 10).Draw(rt, "w")
		case 2: // skewed: ratio >= 100
			if rapid.IntRange(0, 4).Draw(rt, "heavy") == 0 {
				w = rapid.Uint32Range(100, 100000).Draw(rt, "w")
			} else {
				w = rapid.Uint32Range(1, 3).Draw(rt, "w")
			}
		case 3: // powers of two up to 2^31
			w = uint32(1) << uint(rapid.IntRange(0, 31).Draw(rt, "b"))
		case 4: // large arbitrary
			w = rapid.Uint32Range(1, math.MaxUint32/uint32(n)).Draw(rt, "w")
		case 5: // primes-ish / thirds: normalised weights that are not dyadic
			w = rapid.SampledFrom([]uint32{1, 3, 7, 11, 13, 333, 1000, 9973, 65537}).Draw(rt, "w")
		default:
			w = rapid.Uint32Range(1, 1000).Draw(rt, "w")
		}
		// keep the sum within uint32 (EDS validation guarantees this)
		left := budget - uint64(n-i-1)
		if uint64(w) > left {
			w = uint32(left)
		}
		budget -= uint64(w)
		p.Eps = append(p.Eps, vfC37Ep{Key: keyBase + i, Weight: w, State: rapid.SampledFrom([]int{2, 3, 0, 1, 3, 2, 0}).Draw(rt, "state")})
	}
	// ring size bounds: 1 <= min <= max <= cap
	capSize := uint64(vk.Pick(4096, 16384))
	switch rapid.IntRange(0, 5).Draw(rt, "sizekind") {
	case 0:
		p.Min, p.Max = 1024, 4096 // defaults
	case 1: // tight
		p.Min = rapid.Uint64Range(1, capSize).Draw(rt, "min")
		p.Max = p.Min + rapid.Uint64Range(0, 2).Draw(rt, "slack")
	case 2: // small
		p.Min = rapid.Uint64Range(1, 64).Draw(rt, "min")
		p.Max = p.Min + rapid.Uint64Range(0, 64).Draw(rt, "slack")
	case 3: // max is a power of two (cap shape)
		p.Max = uint64(1) << uint(rapid.IntRange(0, 12).Draw(rt, "maxbits"))
		p.Min = rapid.Uint64Range(1, p.Max).Draw(rt, "min")
	default:
		p.Min = rapid.Uint64Range(1, capSize).Draw(rt, "min")
		p.Max = rapid.Uint64Range(p.Min, capSize).Draw(rt, "max")
	}
	if p.Max > capSize {
		p.Max = capSize
	}
	if p.Min > p.Max {
		p.Min = p.Max
	}
	for i := 0; i < n; i++ {
		p.Perm = append(p.Perm, rapid.IntRange(0, n-1).Draw(rt, "perm"))
	}
	np := rapid.IntRange(1, vk.Pick(12, 40)).Draw(rt, "npicks")
	for i := 0; i < np; i++ {
		pk := vfC37Pick{Mode: rapid.SampledFrom([]int{0, 2, 0, 2, 1}).Draw(rt, "mode")}
		pk.HashSel = rapid.IntRange(0, 2).Draw(rt, "hashsel") % 2
		pk.H = rapid.Uint64().Draw(rt, "h")
		if rapid.IntRange(0, 9).Draw(rt, "edge") == 0 {
			pk.H = rapid.SampledFrom([]uint64{0, 1, math.MaxUint64, math.MaxUint64 - 1}).Draw(rt, "hedge")
			pk.HashSel = 0
		}
		pk.D = rapid.IntRange(-1, 1).Draw(rt, "d")
		if pk.Mode == 1 {
			pk.Hdr = rapid.SliceOfN(rapid.StringMatching(`[a-z0-9]{0,6}`), 1, 3).Draw(rt, "hdr")
		}
		p.Picks = append(p.Picks, pk)
	}
	return p
}

type vfC37ChildPicker struct{ ep int }

type vfC37PickErr struct{ ep int }

func (e *vfC37PickErr) Error() string { return "vfC37 picked endpoint " + strconv.Itoa(e.ep) }

func (c *vfC37ChildPicker) Pick(balancer.PickInfo) (balancer.PickResult, error) {
	return balancer.PickResult{}, &vfC37PickErr{c.ep}
}

func vfC37Key(k int) string { return "ep" + strconv.Itoa(k) }

func vfC37Build(p vfC37Plan, order []int, exit []int) *resolver.EndpointMap[*endpointState] {
	m := resolver.NewEndpointMap[*endpointState]()
	for _, i := range order {
		e := p.Eps[i]
		i := i
		m.Set(resolver.Endpoint{Addresses: []resolver.Address{{Addr: vfC37Key(e.Key)}}}, &endpointState{
			hashKey:  vfC37Key(e.Key),
			weight:   e.Weight,
			exitIdle: func() { exit[i]++ },
			state:    balancer.State{ConnectivityState: connectivity.State(e.State), Picker: &vfC37ChildPicker{ep: i}},
		})
	}
	return m
}

func vfC37RunPlan(_ *testing.T, p vfC37Plan) vk.Result {
	n := len(p.Eps)
	if n == 0 || p.Min < 1 || p.Min > p.Max || p.Max > 1<<20 {
		return vk.Result{Discard: true}
	}
	var sum uint64
	seenKey := map[int]bool{}
	minW, maxW := uint32(math.MaxUint32), uint32(0)
	for _, e := range p.Eps {
		if e.Weight == 0 || seenKey[e.Key] || e.State < 0 || e.State > 3 {
			return vk.Result{Discard: true}
		}
		seenKey[e.Key] = true
		sum += uint64(e.Weight)
		if e.Weight < minW {
			minW = e.Weight
		}
		if e.Weight > maxW {
			maxW = e.Weight
		}
	}
	if sum > math.MaxUint32 {
		return vk.Result{Discard: true}
	}
	logger := internalgrpclog.NewPrefixLogger(logger, "[vfC37] ")

	order1 := make([]int, n)
	for i := range order1 {
		order1[i] = i
	}
	// second order: selection permutation driven by the plan
	rest := append([]int(nil), order1...)
	var order2 []int
	for i := 0; len(rest) > 0; i++ {
		k := 0
		if i < len(p.Perm) {
			k = ((p.Perm[i] % len(rest)) + len(rest)) % len(rest)
		}
		order2 = append(order2, rest[k])
		rest = append(rest[:k], rest[k+1:]...)
	}
	exit := make([]int, n)
	m1 := vfC37Build(p, order1, exit)
	r1 := newRing(m1, p.Min, p.Max, logger)
	r2 := newRing(vfC37Build(p, order2, make([]int, n)), p.Min, p.Max, logger)

	res := vk.Result{NonTrivial: n >= 5 && uint64(maxW) >= 100*uint64(minW)}
	if uint64(n) > p.Max {
		res.Classes = append(res.Classes, "n>max")
	}
	if p.Min == p.Max {
		res.Classes = append(res.Classes, "min==max")
	}

	// ---- order independence ----
	if len(r1.items) != len(r2.items) {
		return vk.Bad("ring size depends on insertion order: %d vs %d", len(r1.items), len(r2.items))
	}
	for i := range r1.items {
		a, b := r1.items[i], r2.items[i]
		if a.hash != b.hash || a.hashKey != b.hashKey || a.weight != b.weight || a.idx != b.idx {
			return vk.Bad("ring entry %d depends on insertion order: %+v vs %+v", i, *a, *b)
		}
	}
	// ---- structure: sorted by hash, idx consistent, entries belong to endpoints ----
	L := len(r1.items)
	keyToEp := map[string]int{}
	for i, e := range p.Eps {
		keyToEp[vfC37Key(e.Key)] = i
	}
	counts := make([]int, n)
	for i, it := range r1.items {
		if it.idx != i {
			return vk.Bad("ring entry %d has idx %d", i, it.idx)
		}
		if i > 0 && r1.items[i-1].hash > it.hash {
			return vk.Bad("ring not sorted by hash at %d", i)
		}
		ep, ok := keyToEp[it.hashKey]
		if !ok {
			return vk.Bad("ring entry %d has unknown hash key %q", i, it.hashKey)
		}
		if it.weight != p.Eps[ep].Weight {
			return vk.Bad("ring entry %d weight %d, endpoint weight %d", i, it.weight, p.Eps[ep].Weight)
		}
		counts[ep]++
	}
	// ---- size bounds ----
	// exact real-valued scale: min(ceil(minW*minRing)/minW, maxRing) in rationals
	refScale := new(big.Rat).SetFrac(
		new(big.Int).Mul(vfC37CeilDiv(uint64(minW)*p.Min, sum), new(big.Int).SetUint64(sum)),
		new(big.Int).SetUint64(uint64(minW)))
	maxRat := new(big.Rat).SetInt(new(big.Int).SetUint64(p.Max))
	if refScale.Cmp(maxRat) >= 0 {
		if refScale.Cmp(maxRat) > 0 {
			res.Classes = append(res.Classes, "capped_at_max")
		}
		refScale.Set(maxRat)
	}
	var known *vk.Result
	if uint64(L) < p.Min || uint64(L) > p.Max {
		r := vk.Bad("ring has %d entries, bounds [%d, %d] (%d endpoints, weights min %d max %d sum %d)", L, p.Min, p.Max, n, minW, maxW, sum)
		// Signature c37.ring_size_max_plus_one (precise predicate): the exact
		// scale equals max_ring_size, so exact arithmetic gives exactly max
		// entries, and the ring has exactly one more (the float accumulation of
		// scale*normalizedWeight ended above the integer scale). Everything else
		// about this ring is still checked below; the finding is reported last.
		if uint64(L) == p.Max+1 && refScale.Cmp(maxRat) == 0 {
			r.Sig = "c37.ring_size_max_plus_one"
			known = &r
			res.Classes = append(res.Classes, "known:ring_size_max_plus_one")
		} else {
			return r
		}
	}
	// ---- proportionality up to rounding ----
	// count_i versus L*w_i/sum: |diff| <= 1 + w_i/sum (L is within one of the
	// real-valued scale); and versus the exactly computed scale when the ring
	// size agrees with it: |diff| <= 1.
	refL := vfC37CeilRat(refScale)
	sameScale := refL.IsInt64() && refL.Int64() == int64(L)
	if sameScale {
		res.Classes = append(res.Classes, "size==ceil(exact scale)")
	} else {
		res.Classes = append(res.Classes, "size!=ceil(exact scale)")
		if refL.IsInt64() && refL.Int64()+1 == int64(L) {
			res.Classes = append(res.Classes, "size==ceil(exact scale)+1")
		}
	}
	eps := big.NewRat(1, 1000000)
	for i, e := range p.Eps {
		nw := new(big.Rat).SetFrac(new(big.Int).SetUint64(uint64(e.Weight)), new(big.Int).SetUint64(sum))
		share := new(big.Rat).Mul(new(big.Rat).SetInt64(int64(L)), nw)
		d := new(big.Rat).Sub(new(big.Rat).SetInt64(int64(counts[i])), share)
		d.Abs(d)
		tol := new(big.Rat).Add(big.NewRat(1, 1), nw)
		tol.Add(tol, eps)
		if d.Cmp(tol) > 0 {
			return vk.Bad("endpoint %d (weight %d of %d) has %d of %d ring entries, proportional share %s", i, e.Weight, sum, counts[i], L, share.FloatString(4))
		}
		if sameScale {
			share2 := new(big.Rat).Mul(refScale, nw)
			d2 := new(big.Rat).Sub(new(big.Rat).SetInt64(int64(counts[i])), share2)
			d2.Abs(d2)
			if d2.Cmp(new(big.Rat).Add(big.NewRat(1, 1), eps)) > 0 {
				return vk.Bad("endpoint %d (weight %d of %d) has %d ring entries, scale*normalized weight = %s (scale %s)", i, e.Weight, sum, counts[i], share2.FloatString(4), refScale.FloatString(4))
			}
		}
	}
	// entries of one endpoint are hashes of key_0.. key_{count-1}
	for i, it := range r1.items {
		ep := keyToEp[it.hashKey]
		found := false
		for k := 0; k < counts[ep]; k++ {
			if xxhash.Sum64String(it.hashKey+"_"+strconv.Itoa(k)) == it.hash {
				found = true
				break
			}
		}
		if !found && counts[ep] <= 64 {
			return vk.Bad("ring entry %d (%s) hash %d is not the hash of any of its %d replica names", i, it.hashKey, it.hash, counts[ep])
		}
		if counts[ep] > 64 {
			break
		}
	}

	// ---- picks ----
	b := &ringhashBalancer{endpointStates: m1, ring: r1, config: &iringhash.LBConfig{MinRingSize: p.Min, MaxRingSize: p.Max}}
	pkXDS := b.newPickerLocked()
	b.config = &iringhash.LBConfig{MinRingSize: p.Min, MaxRingSize: p.Max, RequestHashHeader: "x-vf-hash"}
	pkHdr := b.newPickerLocked()
	anyConnecting := false
	for _, e := range p.Eps {
		if e.State == int(connectivity.Connecting) {
			anyConnecting = true
		}
	}
	// reference: index of the first entry with hash >= h, else 0 (linear scan)
	refStart := func(h uint64) int {
		for i, it := range r1.items {
			if it.hash >= h {
				return i
			}
		}
		return 0
	}
	stateOf := func(entry int) connectivity.State {
		return connectivity.State(p.Eps[keyToEp[r1.items[entry].hashKey]].State)
	}
	for pi, pc := range p.Picks {
		h := pc.H
		if pc.HashSel == 1 {
			h = r1.items[int(pc.H%uint64(L))].hash + uint64(int64(pc.D))
		}
		// ring.pick vs linear reference
		if got, want := r1.pick(h).idx, refStart(h); got != want {
			return vk.Bad("ring.pick(%d) = entry %d (hash %d), want entry %d (hash %d)", h, got, r1.items[got].hash, want, r1.items[want].hash)
		}
		for i := range exit {
			exit[i] = 0
		}
		var err error
		ctx := context.Background()
		random := false
		switch pc.Mode {
		case 0:
			_, err = pkXDS.Pick(balancer.PickInfo{Ctx: iringhash.SetXDSRequestHash(ctx, h)})
		case 1:
			md := metadata.MD{}
			hdr := pc.Hdr
			if len(hdr) == 0 {
				hdr = []string{""}
			}
			md.Append("x-vf-hash", hdr...)
			joined := hdr[0]
			for _, v := range hdr[1:] {
				joined += "," + v
			}
			h = xxhash.Sum64String(joined)
			_, err = pkHdr.Pick(balancer.PickInfo{Ctx: metadata.NewOutgoingContext(ctx, md)})
		default:
			random = true
			calls := 0
			pkHdr.randUint64 = func() uint64 { calls++; return h }
			_, err = pkHdr.Pick(balancer.PickInfo{Ctx: ctx})
			if calls != 1 {
				return vk.Bad("pick %d: random hash drawn %d times", pi, calls)
			}
		}
		start := refStart(h)
		// reference walk
		wantEp, wantNoSC := -1, false
		wantExit := -1
		if !random {
			for i := 0; i < L; i++ {
				e := (start + i) % L
				if stateOf(e) != connectivity.TransientFailure {
					wantEp = keyToEp[r1.items[e].hashKey]
					break
				}
			}
			if wantEp < 0 {
				wantEp = keyToEp[r1.items[start].hashKey]
				res.Classes = append(res.Classes, "pick_all_tf")
			} else if stateOf(start) == connectivity.TransientFailure {
				res.Classes = append(res.Classes, "pick_skipped_tf")
			}
		} else {
			requested := anyConnecting
			for i := 0; i < L; i++ {
				e := (start + i) % L
				st := stateOf(e)
				if st == connectivity.Ready {
					wantEp = keyToEp[r1.items[e].hashKey]
					break
				}
				if !requested && st == connectivity.Idle {
					requested = true
					wantExit = keyToEp[r1.items[e].hashKey]
				}
			}
			switch {
			case wantEp >= 0:
				res.Classes = append(res.Classes, "random_found_ready")
			case requested:
				wantNoSC = true
				res.Classes = append(res.Classes, "random_queued")
			default:
				wantEp = keyToEp[r1.items[start].hashKey]
				res.Classes = append(res.Classes, "random_all_tf")
			}
			if wantExit >= 0 {
				res.Classes = append(res.Classes, "random_triggered_connect")
			}
		}
		gotEp := -1
		if pe, ok := err.(*vfC37PickErr); ok {
			gotEp = pe.ep
		}
		desc := fmt.Sprintf("pick %d (mode %d, hash %d -> entry %d of %d)", pi, pc.Mode, h, start, L)
		if wantNoSC {
			if err != balancer.ErrNoSubConnAvailable {
				return vk.Bad("%s: got %v, want ErrNoSubConnAvailable (no READY endpoint, connection pending)", desc, err)
			}
		} else if gotEp != wantEp {
			return vk.Bad("%s: delegated to endpoint %d (%v), want endpoint %d", desc, gotEp, err, wantEp)
		}
		total := 0
		for i, c := range exit {
			total += c
			if c > 0 && i != wantExit {
				return vk.Bad("%s: connection attempt triggered on endpoint %d (state %v), want %d", desc, i, connectivity.State(p.Eps[i].State), wantExit)
			}
		}
		if total > 1 {
			return vk.Bad("%s: %d connection attempts triggered", desc, total)
		}
		if wantExit >= 0 && total != 1 {
			return vk.Bad("%s: no connection attempt triggered, want one on idle endpoint %d", desc, wantExit)
		}
	}
	res.Steps = len(p.Picks)
	res.Classes = vfC37Dedup(res.Classes)
	if known != nil {
		known.Classes = res.Classes
		return *known
	}
	return res
}

func vfC37Dedup(in []string) []string {
	sort.Strings(in)
	out := in[:0]
	for i, s := range in {
		if i == 0 || s != in[i-1] {
			out = append(out, s)
		}
	}
	return out
}

func vfC37CeilDiv(a, b uint64) *big.Int {
	// a may overflow uint64 as a product? callers pass minW*min <= 2^32 * 2^20
	q := new(big.Int).SetUint64(a / b)
	if a%b != 0 {
		q.Add(q, big.NewInt(1))
	}
	return q
}

func vfC37CeilRat(r *big.Rat) *big.Int {
	q, m := new(big.Int).QuoRem(r.Num(), r.Denom(), new(big.Int))
	if m.Sign() > 0 {
		q.Add(q, big.NewInt(1))
	}
	return q
}

func TestVerifC37Ring(t *testing.T) {
	vk.Check(t, vk.Unit[vfC37Plan]{
		ID: "C37", Name: "ring",
		Rule: "1..120/200 endpoints with distinct hash keys, weights from 7 shapes (equal, small, skewed ratio>=100, powers of two to 2^31, large arbitrary, non-dyadic, 1..1000) with sum <= MaxUint32, states Idle/Connecting/Ready/TF; ring bounds 1<=min<=max<=4096/16384 (defaults, tight, small, power-of-two max, arbitrary); a second insertion order; 1..12/40 picks (xDS hash, header hash, random hash; hashes at ring entry hashes ±1, 0, MaxUint64, arbitrary). Oracles: identical rings for both orders, min<=len<=max, |count_i - len*w_i/Σw| <= 1+w_i/Σw and |count_i - scale*w_i/Σw| <= 1 with scale recomputed in exact rationals, ring.pick == linear scan, picker walk == reference A61/A76 walk incl. exitIdle ledger. non-trivial = >= 5 endpoints with max/min weight ratio >= 100",
		Gen:  vfC37GenPlan, Run: vfC37RunPlan,
	})
}
