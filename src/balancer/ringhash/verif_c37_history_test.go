package ringhash

// C37, unit "history": the ring the registered ring_hash balancer publishes
// after a HISTORY of resolver updates depends only on the last endpoint set and
// config (not on what the balancer has seen before).
//
// The real balancer (balancer.Get(Name).Build, real endpointsharding + lazy +
// pick_first children) is driven with a recording fake ClientConn inside a
// synctest bubble. Oracle (independent of the incremental reconcile path in
// ringhashBalancer.UpdateState):
//
//   - reference A: newRing called directly on an EndpointMap the harness derives
//     from the plan (hash key = hash-key attribute, else the first address;
//     weight = weight attribute, else 1);
//   - reference B: a FRESH balancer instance that receives only the last update;
//   - every picker published from the start of an UpdateClientConnState call on
//     (and the latest one, if none was published) must carry exactly that ring
//     and an endpoint-state table whose keys/weights are those of the current set.

import (
	"context"
	"fmt"
	"sort"
	"testing"
	"testing/synctest"
	"time"

	"google.golang.org/grpc/balancer"
	"google.golang.org/grpc/connectivity"
	"google.golang.org/grpc/experimental/balancer/weight"
	internalgrpclog "google.golang.org/grpc/internal/grpclog"
	iringhash "google.golang.org/grpc/internal/ringhash"
	"google.golang.org/grpc/internal/verifkit/fakecc"
	"google.golang.org/grpc/internal/verifkit/vk"
	"google.golang.org/grpc/resolver"
	rhresolver "google.golang.org/grpc/resolver/ringhash"
	"pgregory.net/rapid"
)

// vfC37HPool is the endpoint pool: an endpoint is identified (by the balancer
// and by resolver.EndpointMap) by its unordered address set; the sets are
// pairwise disjoint.
var vfC37HPool = [][]string{
	{"10.0.0.1:80"},
	{"10.0.1.1:80"},
	{"10.0.2.1:80", "10.0.2.2:80"},
	{"10.0.3.1:80", "10.0.3.2:80"},
	{"10.0.4.1:80", "10.0.4.2:80", "10.0.4.3:80"},
	{"10.0.5.1:80", "10.0.5.2:80"},
}

// vfC37HKeys is the pool of explicit hash keys (never equal to an address).
var vfC37HKeys = []string{"kA", "kB", "kC", "kD", "kE"}

// vfC37HConfigs are (min_ring_size, max_ring_size) pairs; 0 = field absent
// (defaults 1024 / 4096).
var vfC37HConfigs = [][2]uint64{{1, 3}, {1, 8}, {2, 16}, {8, 8}, {16, 64}, {50, 128}, {3, 3}, {1, 1}, {7, 100}, {0, 0}}

type vfC37HEp struct {
	ID    int    `json:"id"`    // index into the pool
	Order []int  `json:"order"` // permutation of the pool endpoint's addresses
	NoW   bool   `json:"no_w"`  // weight attribute absent
	W     uint32 `json:"w"`     // weight attribute (0 is treated as 1 by the balancer)
	Key   string `json:"key"`   // hash key attribute ("" = absent: first address)
}

const (
	vfC37HUpdate = iota
	vfC37HConn
	vfC37HPick
	vfC37HResolverError
	vfC37HSleep
)

type vfC37HOp struct {
	K int `json:"k"`
	// update
	Eps   []vfC37HEp `json:"eps,omitempty"`
	Min   uint64     `json:"min,omitempty"`
	Max   uint64     `json:"max,omitempty"`
	Class string     `json:"class,omitempty"` // generator class (documentation only)
	// conn: the Sel-th deliverable SubConn (sorted by address, id; modulo)
	// first gets Adv "forward" deliveries (its first enabled event: CONNECTING
	// after Connect, READY while CONNECTING, health READY while a health
	// listener is registered, IDLE from READY/TRANSIENT_FAILURE, SHUTDOWN after
	// Shutdown), then its St-th enabled state (modulo); Health: prefer a
	// health update if one is possible.
	Sel    int  `json:"sel,omitempty"`
	Adv    int  `json:"adv,omitempty"`
	St     int  `json:"st,omitempty"`
	Health bool `json:"health,omitempty"`
	// pick
	H uint64 `json:"h,omitempty"`
}

type vfC37HPlan struct {
	Ops []vfC37HOp `json:"ops"`
}

func vfC37HEffW(e vfC37HEp) uint32 {
	if e.NoW || e.W == 0 {
		return 1
	}
	return e.W
}

func vfC37HEffKey(e vfC37HEp) string {
	if e.Key != "" {
		return e.Key
	}
	return vfC37HPool[e.ID][e.Order[0]]
}

func vfC37HSameOrder(a, b []int) bool {
	if len(a) != len(b) {
		return false
	}
	for i := range a {
		if a[i] != b[i] {
			return false
		}
	}
	return true
}

func vfC37HPerms(n int) [][]int {
	if n == 1 {
		return [][]int{{0}}
	}
	var out [][]int
	for _, p := range vfC37HPerms(n - 1) {
		for pos := 0; pos <= len(p); pos++ {
			q := append(append(append([]int(nil), p[:pos]...), n-1), p[pos:]...)
			out = append(out, q)
		}
	}
	return out
}

type vfC37HWeightChoice struct {
	noW bool
	w   uint32
}

var vfC37HWeights = []vfC37HWeightChoice{{true, 0}, {false, 0}, {false, 1}, {false, 2}, {false, 3}, {false, 5}, {false, 10}, {false, 100}, {false, 1 << 20}, {false, 7}}

// vfC37HGen draws a history. Every update is stored as the complete endpoint
// list (absolute), derived from the previous one by generated mutations.
func vfC37HGen(rt *rapid.T) vfC37HPlan {
	u := func(label string, n int) int { return fakecc.Uniform(rt, label, n) }
	var cur []vfC37HEp
	cfg := vfC37HConfigs[u("cfg0", len(vfC37HConfigs))]

	usedKeys := func(except int) map[string]bool {
		m := map[string]bool{}
		for i, e := range cur {
			if i != except && e.Key != "" {
				m[e.Key] = true
			}
		}
		return m
	}
	freeKeys := func(except int) []string {
		used := usedKeys(except)
		var out []string
		for _, k := range vfC37HKeys {
			if !used[k] {
				out = append(out, k)
			}
		}
		return out
	}
	mutWeight := func(i int) bool {
		var cand []vfC37HWeightChoice
		for _, c := range vfC37HWeights {
			if vfC37HEffW(vfC37HEp{NoW: c.noW, W: c.w}) != vfC37HEffW(cur[i]) {
				cand = append(cand, c)
			}
		}
		c := cand[u("w", len(cand))]
		cur[i].NoW, cur[i].W = c.noW, c.w
		return true
	}
	mutKey := func(i int) bool {
		cand := []string{}
		for _, k := range append(freeKeys(i), "") {
			if k != cur[i].Key {
				cand = append(cand, k)
			}
		}
		if len(cand) == 0 {
			return false
		}
		// prefer an explicit key over "absent" 3:1 when both are possible
		k := cand[u("key", len(cand))]
		if k == "" && len(cand) > 1 && u("keyredraw", 4) != 0 {
			k = cand[u("key2", len(cand)-1)]
		}
		cur[i].Key = k
		return true
	}
	mutOrder := func(i int) bool {
		n := len(vfC37HPool[cur[i].ID])
		if n < 2 {
			return false
		}
		var cand [][]int
		for _, p := range vfC37HPerms(n) {
			if !vfC37HSameOrder(p, cur[i].Order) {
				cand = append(cand, p)
			}
		}
		cur[i].Order = cand[u("order", len(cand))]
		return true
	}
	absent := func() []int {
		have := map[int]bool{}
		for _, e := range cur {
			have[e.ID] = true
		}
		var out []int
		for id := range vfC37HPool {
			if !have[id] {
				out = append(out, id)
			}
		}
		return out
	}
	add := func() bool {
		a := absent()
		if len(a) == 0 {
			return false
		}
		id := a[u("addid", len(a))]
		perms := vfC37HPerms(len(vfC37HPool[id]))
		e := vfC37HEp{ID: id, Order: perms[u("addorder", len(perms))]}
		c := vfC37HWeights[u("addw", len(vfC37HWeights))]
		e.NoW, e.W = c.noW, c.w
		cur = append(cur, e)
		if fk := freeKeys(len(cur) - 1); len(fk) > 0 && u("addkeyed", 2) == 0 {
			cur[len(cur)-1].Key = fk[u("addkey", len(fk))]
		}
		return true
	}
	remove := func() bool {
		if len(cur) < 2 {
			return false
		}
		i := u("rm", len(cur))
		cur = append(append([]vfC37HEp(nil), cur[:i]...), cur[i+1:]...)
		return true
	}
	keySwap := func() bool {
		if len(cur) < 2 {
			return false
		}
		i := u("swapi", len(cur))
		j := (i + 1 + u("swapj", len(cur)-1)) % len(cur)
		if cur[i].Key == cur[j].Key { // both absent
			return false
		}
		cur[i].Key, cur[j].Key = cur[j].Key, cur[i].Key
		return true
	}
	mutConfig := func() bool {
		for {
			c := vfC37HConfigs[u("cfg", len(vfC37HConfigs))]
			if c != cfg {
				cfg = c
				return true
			}
		}
	}
	anyMut := func() bool {
		if len(cur) == 0 {
			return add()
		}
		i := u("mi", len(cur))
		switch fakecc.Weighted(rt, "mk", 20, 20, 15, 12, 12, 8, 13) {
		case 0:
			return mutWeight(i)
		case 1:
			return mutKey(i)
		case 2:
			return mutOrder(i)
		case 3:
			return add()
		case 4:
			return remove()
		case 5:
			return keySwap()
		default:
			return mutConfig()
		}
	}
	snapshot := func(class string) vfC37HOp {
		op := vfC37HOp{K: vfC37HUpdate, Min: cfg[0], Max: cfg[1], Class: class}
		for _, e := range cur {
			e.Order = append([]int(nil), e.Order...)
			op.Eps = append(op.Eps, e)
		}
		return op
	}

	var p vfC37HPlan
	// initial set
	n0 := 1 + fakecc.Weighted(rt, "n0", 1, 3, 4, 3, 1)
	for i := 0; i < n0; i++ {
		add()
	}
	nops := 4 + u("nops", vk.Pick(13, 37))
	updates := 0
	for i := 0; i < nops; i++ {
		k := fakecc.Weighted(rt, "k", 40, 33, 18, 4, 5)
		if i == 0 && u("first", 10) != 0 {
			k = vfC37HUpdate
		}
		switch k {
		case vfC37HUpdate:
			if updates == 0 {
				p.Ops = append(p.Ops, snapshot("initial"))
				updates++
				continue
			}
			class := ""
			if len(cur) == 0 {
				class = "refill"
				for j := 1 + u("refill", 3); j > 0; j-- {
					add()
				}
			} else {
				switch fakecc.Weighted(rt, "uclass", 36, 22, 20, 14, 4, 4) {
				case 0: // several fields of ONE known endpoint in the same update
					class = "multi"
					i := u("mfi", len(cur))
					combo := 0 // weight+key
					if len(vfC37HPool[cur[i].ID]) >= 2 {
						combo = u("combo", 4)
					}
					switch combo {
					case 0:
						mutWeight(i)
						mutKey(i)
					case 1:
						mutWeight(i)
						mutOrder(i)
					case 2:
						mutKey(i)
						mutOrder(i)
					default:
						mutWeight(i)
						mutKey(i)
						mutOrder(i)
					}
					if u("mfextra", 10) < 3 {
						anyMut()
					}
				case 1: // exactly one field of one endpoint (or the config only)
					class = "single"
					i := u("si", len(cur))
					switch fakecc.Weighted(rt, "sk", 30, 35, 20, 15) {
					case 0:
						mutWeight(i)
					case 1:
						if !mutKey(i) {
							mutWeight(i)
						}
					case 2:
						if !mutOrder(i) {
							mutKey(i)
						}
					default:
						mutConfig()
					}
				case 2: // membership: remove and/or add (re-adds get fresh attributes)
					class = "membership"
					done := false
					for j := 1 + u("nm", 2); j > 0; j-- {
						if u("addrm", 2) == 0 {
							done = add() || done
						} else {
							done = remove() || done
						}
					}
					if !done && !add() {
						remove()
					}
				case 3:
					class = "mixed"
					for j := 1 + u("nmix", 3); j > 0; j-- {
						anyMut()
					}
				case 4:
					class = "same"
				default:
					class = "empty"
					cur = nil
				}
			}
			if len(cur) > 1 && u("shuffle", 2) == 0 {
				perm := rapid.Permutation(append([]vfC37HEp(nil), cur...)).Draw(rt, "listorder")
				cur = perm
			}
			p.Ops = append(p.Ops, snapshot(class))
			updates++
		case vfC37HConn:
			p.Ops = append(p.Ops, vfC37HOp{K: vfC37HConn, Sel: u("sel", 64), Adv: fakecc.Weighted(rt, "adv", 45, 20, 20, 15), St: fakecc.Weighted(rt, "st", 60, 25, 15), Health: u("health", 2) == 0})
		case vfC37HPick:
			p.Ops = append(p.Ops, vfC37HOp{K: vfC37HPick, H: rapid.Uint64().Draw(rt, "h")})
		case vfC37HResolverError:
			p.Ops = append(p.Ops, vfC37HOp{K: vfC37HResolverError})
		default:
			p.Ops = append(p.Ops, vfC37HOp{K: vfC37HSleep})
		}
	}
	return p
}

func vfC37HEndpoint(e vfC37HEp) resolver.Endpoint {
	var ep resolver.Endpoint
	for _, j := range e.Order {
		ep.Addresses = append(ep.Addresses, resolver.Address{Addr: vfC37HPool[e.ID][j]})
	}
	if !e.NoW {
		ep = weight.Set(ep, weight.EndpointInfo{Weight: e.W})
	}
	return rhresolver.SetHashKey(ep, e.Key)
}

// vfC37HValid checks the plan's domain: pool ids distinct per update, Order a
// permutation, effective hash keys distinct per update (duplicates collapse in
// the picker's table and are outside the property's domain), explicit keys from
// the key pool.
func vfC37HValid(p vfC37HPlan) bool {
	for _, op := range p.Ops {
		if op.K != vfC37HUpdate {
			continue
		}
		ids, keys := map[int]bool{}, map[string]bool{}
		var sum uint64
		for _, e := range op.Eps {
			if e.ID < 0 || e.ID >= len(vfC37HPool) || ids[e.ID] || len(e.Order) != len(vfC37HPool[e.ID]) {
				return false
			}
			ids[e.ID] = true
			seen := map[int]bool{}
			for _, j := range e.Order {
				if j < 0 || j >= len(e.Order) || seen[j] {
					return false
				}
				seen[j] = true
			}
			k := vfC37HEffKey(e)
			if keys[k] {
				return false
			}
			keys[k] = true
			sum += uint64(vfC37HEffW(e))
		}
		if sum > 1<<32-1 {
			return false
		}
		min, max := op.Min, op.Max
		if min == 0 {
			min = 1024
		}
		if max == 0 {
			max = 4096
		}
		if min > max || max > 4096 {
			return false
		}
	}
	return true
}

type vfC37HItem struct {
	hash   uint64
	key    string
	weight uint32
}

func vfC37HDump(r *ring) []vfC37HItem {
	out := make([]vfC37HItem, 0, len(r.items))
	for _, it := range r.items {
		out = append(out, vfC37HItem{it.hash, it.hashKey, it.weight})
	}
	return out
}

func vfC37HDiff(got, want []vfC37HItem) string {
	if len(got) != len(want) {
		return fmt.Sprintf("ring has %d entries, want %d (per-key counts got %v, want %v)", len(got), len(want), vfC37HCounts(got), vfC37HCounts(want))
	}
	for i := range got {
		if got[i] != want[i] {
			return fmt.Sprintf("ring entry %d is {hash %d key %q weight %d}, want {hash %d key %q weight %d} (per-key counts got %v, want %v)",
				i, got[i].hash, got[i].key, got[i].weight, want[i].hash, want[i].key, want[i].weight, vfC37HCounts(got), vfC37HCounts(want))
		}
	}
	return ""
}

func vfC37HCounts(items []vfC37HItem) string {
	m := map[string]int{}
	for _, it := range items {
		m[fmt.Sprintf("%s/w%d", it.key, it.weight)]++
	}
	keys := make([]string, 0, len(m))
	for k := range m {
		keys = append(keys, k)
	}
	sort.Strings(keys)
	s := ""
	for _, k := range keys {
		s += fmt.Sprintf("%s:%d ", k, m[k])
	}
	return s
}

func vfC37HParse(bld balancer.Builder, min, max uint64) (*iringhash.LBConfig, error) {
	js := "{"
	if min != 0 {
		js += fmt.Sprintf(`"minRingSize": %d`, min)
	}
	if max != 0 {
		if min != 0 {
			js += ","
		}
		js += fmt.Sprintf(`"maxRingSize": %d`, max)
	}
	js += "}"
	c, err := bld.(balancer.ConfigParser).ParseConfig([]byte(js))
	if err != nil {
		return nil, err
	}
	return c.(*iringhash.LBConfig), nil
}

func vfC37HRun(t *testing.T, p vfC37HPlan) vk.Result {
	if !vfC37HValid(p) {
		return vk.Result{Discard: true}
	}
	var res vk.Result
	msg := vk.Bubble(t, func(*testing.T) { res = vfC37HBubble(p) })
	if msg != "" && res.Violation == "" {
		return vk.Bad("history run did not finish cleanly: %s", msg)
	}
	return res
}

func vfC37HBubble(p vfC37HPlan) (res vk.Result) {
	bld := balancer.Get(Name)
	if bld == nil {
		return vk.Bad("harness: balancer %q is not registered", Name)
	}
	plog := internalgrpclog.NewPrefixLogger(logger, "[vfC37H] ")
	cc := fakecc.New("vfc37-history")
	b := bld.Build(cc, balancer.BuildOptions{})
	defer func() {
		b.Close()
		synctest.Wait()
	}()

	// Expectation for the current endpoint set (nil: no non-empty update yet,
	// or the last update was empty).
	var wantRing []vfC37HItem
	var wantW map[string]uint32
	verified := map[*ring]bool{} // rings already compared since the last update
	checked := 0                 // cc states [0,checked) have been examined

	checkPicker := func(where string, idx int, st balancer.State) string {
		if wantRing == nil {
			return ""
		}
		pk, ok := st.Picker.(*picker)
		if !ok {
			return fmt.Sprintf("%s: published state #%d carries a %T, not a ring_hash picker, although the current endpoint set has %d endpoints", where, idx, st.Picker, len(wantW))
		}
		if pk.ring == nil {
			return fmt.Sprintf("%s: published picker #%d has no ring", where, idx)
		}
		if !verified[pk.ring] {
			if d := vfC37HDiff(vfC37HDump(pk.ring), wantRing); d != "" {
				return fmt.Sprintf("%s: published picker #%d: the ring is not the ring of the current endpoint set: %s", where, idx, d)
			}
			for i, it := range pk.ring.items {
				if it.idx != i {
					return fmt.Sprintf("%s: published picker #%d: ring entry %d has idx %d", where, idx, i, it.idx)
				}
			}
			verified[pk.ring] = true
		}
		// the endpoint states the picker walks: exactly the current set
		for k, es := range pk.endpointStates {
			w, ok := wantW[k]
			if !ok {
				return fmt.Sprintf("%s: published picker #%d walks an endpoint state for hash key %q, which is not in the current endpoint set %v", where, idx, k, wantW)
			}
			if es.hashKey != k || es.weight != w {
				return fmt.Sprintf("%s: published picker #%d: endpoint state under key %q has hashKey %q weight %d, want weight %d", where, idx, k, es.hashKey, es.weight, w)
			}
		}
		for k := range wantW {
			if _, ok := pk.endpointStates[k]; !ok {
				return fmt.Sprintf("%s: published picker #%d has no endpoint state for hash key %q of the current endpoint set", where, idx, k)
			}
		}
		return ""
	}
	sawReady := false
	checkNew := func(where string) string {
		states := cc.States()
		for i := checked; i < len(states); i++ {
			if states[i].ConnectivityState == connectivity.Ready {
				sawReady = true
			}
			if v := checkPicker(where, i, states[i]); v != "" {
				return v
			}
		}
		checked = len(states)
		return ""
	}

	// class bookkeeping, from the plan only
	var prev *vfC37HOp
	lastSeen := map[int]vfC37HEp{} // last attributes of every endpoint ever seen
	updates := 0
	classes := map[string]bool{}
	multi := false

	for i := range p.Ops {
		op := &p.Ops[i]
		where := fmt.Sprintf("op %d", i)
		switch op.K {
		case vfC37HUpdate:
			where = fmt.Sprintf("op %d (update %d, %d endpoints, min %d max %d)", i, updates, len(op.Eps), op.Min, op.Max)
			cfg, err := vfC37HParse(bld, op.Min, op.Max)
			if err != nil {
				return vk.Bad("harness: ParseConfig(%d,%d): %v", op.Min, op.Max, err)
			}
			var eps []resolver.Endpoint
			for _, e := range op.Eps {
				eps = append(eps, vfC37HEndpoint(e))
			}
			// classes (differences to the previous update)
			if prev != nil {
				before := map[int]vfC37HEp{}
				for _, e := range prev.Eps {
					before[e.ID] = e
				}
				onlyKeys, anyKey := op.Min == prev.Min && op.Max == prev.Max && len(op.Eps) == len(prev.Eps), false
				if op.Min != prev.Min || op.Max != prev.Max {
					classes["config_change"] = true
				}
				for _, e := range op.Eps {
					o, known := before[e.ID]
					if !known {
						onlyKeys = false
						if old, ok := lastSeen[e.ID]; ok {
							classes["readd"] = true
							if vfC37HEffW(old) != vfC37HEffW(e) {
								classes["readd_with_other_weight"] = true
							}
							if vfC37HEffKey(old) != vfC37HEffKey(e) {
								classes["readd_with_other_key"] = true
							}
						}
						continue
					}
					dw, dk, da := vfC37HEffW(o) != vfC37HEffW(e), vfC37HEffKey(o) != vfC37HEffKey(e), !vfC37HSameOrder(o.Order, e.Order)
					n := 0
					for _, d := range []bool{dw, dk, da} {
						if d {
							n++
						}
					}
					if dw || da {
						onlyKeys = false
					}
					if dk && !da {
						anyKey = true
					}
					if dk && da {
						onlyKeys = false
					}
					if n >= 2 {
						multi = true
						classes["multi_field_change_of_known_endpoint"] = true
						switch {
						case n == 3:
							classes["mf:weight+key+addrs"] = true
						case dw && dk:
							classes["mf:weight+key"] = true
						case dw && da:
							classes["mf:weight+addrs"] = true
						default:
							classes["mf:key+addrs"] = true
						}
						if dw && dk {
							classes["eff_weight_and_key_change_same_update"] = true
						}
					} else if n == 1 {
						classes["single_field_change_of_known_endpoint"] = true
					}
				}
				now := map[int]bool{}
				for _, e := range op.Eps {
					now[e.ID] = true
				}
				for _, e := range prev.Eps {
					if !now[e.ID] {
						classes["endpoint_removed"] = true
						onlyKeys = false
					}
				}
				if onlyKeys && anyKey {
					classes["key_only_update"] = true
				}
				if len(op.Eps) == 0 {
					classes["empty_update"] = true
				}
			}
			for _, e := range op.Eps {
				lastSeen[e.ID] = e
			}
			prev = op
			updates++

			// expectation for the new set, derived from the plan alone
			if len(op.Eps) == 0 {
				wantRing, wantW = nil, nil
			} else {
				ref := resolver.NewEndpointMap[*endpointState]()
				wantW = map[string]uint32{}
				for j, e := range op.Eps {
					k, w := vfC37HEffKey(e), vfC37HEffW(e)
					ref.Set(eps[j], &endpointState{hashKey: k, weight: w})
					wantW[k] = w
				}
				wantRing = vfC37HDump(newRing(ref, cfg.MinRingSize, cfg.MaxRingSize, plog))
			}
			verified = map[*ring]bool{}

			// nothing may be in flight: pickers published from here on belong to
			// this update (the balancer inhibits publications during the call).
			if v := checkNew(where + " [before the call]"); v != "" {
				// cannot happen: everything was examined after the previous op
				return vk.Bad("%s", v)
			}
			err = b.UpdateClientConnState(balancer.ClientConnState{ResolverState: resolver.State{Endpoints: eps}, BalancerConfig: cfg})
			if len(op.Eps) > 0 && err != nil {
				return vk.Bad("%s: UpdateClientConnState returned %v", where, err)
			}
			// latest published picker right at return (also when nothing new
			// was published by the call)
			if st, ok := cc.LastState(); ok {
				if v := checkPicker(where+" [latest picker at return]", cc.NumStates()-1, st); v != "" {
					return vk.Bad("%s", v)
				}
			} else if len(op.Eps) > 0 {
				return vk.Bad("%s: no picker was ever published", where)
			}
			if v := checkNew(where); v != "" {
				return vk.Bad("%s", v)
			}
			synctest.Wait()
			if v := checkNew(where + " [at quiescence]"); v != "" {
				return vk.Bad("%s", v)
			}

			// reference B: a fresh balancer that sees only this update
			if len(op.Eps) > 0 {
				cc2 := fakecc.New("vfc37-history-fresh")
				b2 := bld.Build(cc2, balancer.BuildOptions{})
				err := b2.UpdateClientConnState(balancer.ClientConnState{ResolverState: resolver.State{Endpoints: eps}, BalancerConfig: cfg})
				st2, ok2 := cc2.LastState()
				b2.Close()
				synctest.Wait()
				if err != nil || !ok2 {
					return vk.Bad("%s: fresh balancer: err=%v published=%v", where, err, ok2)
				}
				pk2, ok := st2.Picker.(*picker)
				if !ok || pk2.ring == nil {
					return vk.Bad("%s: fresh balancer published a %T", where, st2.Picker)
				}
				fresh := vfC37HDump(pk2.ring)
				if d := vfC37HDiff(fresh, wantRing); d != "" {
					return vk.Bad("%s: the ring of a FRESH balancer for this endpoint set differs from newRing on the set: %s", where, d)
				}
				st, _ := cc.LastState()
				if pk, ok := st.Picker.(*picker); ok && pk.ring != nil {
					if d := vfC37HDiff(vfC37HDump(pk.ring), fresh); d != "" {
						return vk.Bad("%s: ring after the history differs from the ring of a fresh balancer that got only the last update: %s", where, d)
					}
				}
			}
			continue

		case vfC37HConn:
			list := cc.Deliverable()
			if len(list) == 0 {
				continue
			}
			sort.SliceStable(list, func(a, c int) bool {
				aa, ca := "", ""
				if len(list[a].Addrs) > 0 {
					aa = list[a].Addrs[0].Addr
				}
				if len(list[c].Addrs) > 0 {
					ca = list[c].Addrs[0].Addr
				}
				if aa != ca {
					return aa < ca
				}
				return list[a].ID < list[c].ID
			})
			sc := list[op.Sel%len(list)]
			for a := 0; a < op.Adv && a < 8; a++ {
				if sc.HealthEnabled() {
					sc.DeliverHealth(connectivity.Ready, nil)
				} else if en := sc.Enabled(); len(en) > 0 {
					sc.Deliver(en[0], fmt.Errorf("vfC37H connection failure"))
				}
				synctest.Wait()
				if v := checkNew(where); v != "" {
					return vk.Bad("%s", v)
				}
			}
			en := sc.Enabled()
			if sc.HealthEnabled() && (op.Health || len(en) == 0) {
				hs := []connectivity.State{connectivity.Ready, connectivity.TransientFailure, connectivity.Connecting}[op.St%3]
				sc.DeliverHealth(hs, fmt.Errorf("vfC37H health failure"))
			} else if len(en) > 0 {
				sc.Deliver(en[op.St%len(en)], fmt.Errorf("vfC37H connection failure"))
			}
		case vfC37HPick:
			st, ok := cc.LastState()
			if !ok || st.Picker == nil {
				continue
			}
			// A pick is what makes lazy children connect; the result is not
			// part of this unit's oracle (unit "ring" checks the walk).
			_, _ = st.Picker.Pick(balancer.PickInfo{FullMethodName: "/vf.C37/History", Ctx: iringhash.SetXDSRequestHash(context.Background(), op.H)})
		case vfC37HResolverError:
			b.ResolverError(fmt.Errorf("vfC37H resolver error"))
		case vfC37HSleep:
			time.Sleep(300 * time.Millisecond) // virtual: lets pick_first's happy-eyeballs timer fire
		default:
			return vk.Result{Discard: true}
		}
		synctest.Wait()
		if v := checkNew(where); v != "" {
			return vk.Bad("%s", v)
		}
	}

	var cl []string
	for c := range classes {
		cl = append(cl, c)
	}
	sort.Strings(cl)
	if sawReady {
		cl = append(cl, "saw_ready")
	}
	if len(cc.SubConns()) > 0 {
		cl = append(cl, "subconns_created")
	}
	switch {
	case updates >= 5:
		cl = append(cl, "updates>=5")
	case updates >= 2:
		cl = append(cl, "updates2-4")
	default:
		cl = append(cl, "updates<2")
	}
	r := vk.OK(updates >= 2 && multi, cl...)
	r.Steps = len(p.Ops)
	return r
}

func TestVerifC37History(t *testing.T) {
	vk.Check(t, vk.Unit[vfC37HPlan]{
		ID:   "C37",
		Name: "history",
		Rule: "Histories of 4..16 (thorough ..40) operations on the registered ring_hash balancer with a recording fake ClientConn in a synctest bubble: resolver updates (endpoint lists over a pool of 6 endpoints with 1-3 addresses; each update is derived from the previous one by generated mutations of weight attribute, hash-key attribute, address order, membership, key swaps, ring size config; update classes multi/single/membership/mixed/same/empty), SubConn and health state deliveries, picks (which make lazy children connect), resolver errors, virtual sleeps. After every update the ring and endpoint-state table of every picker published since the call began (and of the latest picker) must equal newRing on the plan-derived endpoint set and the ring of a fresh balancer that receives only that update. Non-trivial: >= 2 updates and in some update an endpoint present in the previous update changed >= 2 of {effective weight, effective hash key, address order} (class multi_field_change_of_known_endpoint).",
		Gen:  vfC37HGen,
		Run:  vfC37HRun,
	})
}
