package keys

// C41 (keys part): RLSKey is faithful to the key builder configuration
// (reference model written from the statement) and the string form used as the
// cache key is injective on key maps: two requests on the same path whose key
// maps differ must not get the same string.

import (
	"fmt"
	"reflect"
	"sort"
	"strings"
	"testing"

	rlspb "google.golang.org/grpc/internal/proto/grpc_lookup_v1"
	"google.golang.org/grpc/internal/verifkit/vk"
	"google.golang.org/grpc/metadata"
	"pgregory.net/rapid"
)

type vfC41Hdr struct {
	Key   string   `json:"key"`
	Names []string `json:"names"`
}

type vfC41KV struct {
	K string `json:"k"`
	V string `json:"v"`
}

type vfC41KB struct {
	Names   [][2]string `json:"names"` // (service, method); method "" = whole service
	Headers []vfC41Hdr  `json:"headers"`
	Host    string      `json:"host_key"`
	Service string      `json:"service_key"`
	Method  string      `json:"method_key"`
	Const   []vfC41KV   `json:"const"`
}

type vfC41Req struct {
	// MD entries: [name, value1, value2, ...] (at least one value)
	MD   [][]string `json:"md"`
	Host string     `json:"host"`
	Path string     `json:"path"`
}

type vfC41KeysPlan struct {
	KBs   []vfC41KB  `json:"kbs"`
	Reqs  []vfC41Req `json:"reqs"`
	Dirty bool       `json:"dirty"` // header values may contain ',' and '='
}

var (
	vfC41KeyPool  = []string{"a", "b", "c", "d", "e", "f", "g", "h"}
	vfC41HdrPool  = []string{"h0", "h1", "h2", "h3", "H4"}
	vfC41SvcPool  = []string{"s0", "s1", "pkg.S2"}
	vfC41MethPool = []string{"m0", "m1", ""}
)

func vfC41GenValue(rt *rapid.T, dirty bool) string {
	if dirty {
		return rapid.StringOfN(rapid.RuneFrom([]rune("12ab,=")), 0, 5, -1).Draw(rt, "val")
	}
	return rapid.StringOfN(rapid.RuneFrom([]rune("12ab .-")), 0, 3, -1).Draw(rt, "val")
}

// vfC41Ref is the reference model of RLSKey, from the property statement.
func vfC41Ref(kbs []vfC41KB, r vfC41Req) (map[string]string, bool) {
	i := strings.LastIndex(r.Path, "/")
	svc, meth := strings.Trim(r.Path[:i], "/"), r.Path[i+1:]
	var kb *vfC41KB
	for pass := 0; pass < 2 && kb == nil; pass++ {
		for bi := range kbs {
			for _, nm := range kbs[bi].Names {
				if nm[0] == svc && ((pass == 0 && nm[1] == meth) || (pass == 1 && nm[1] == "")) {
					kb = &kbs[bi]
				}
			}
		}
	}
	if kb == nil {
		return nil, false
	}
	out := map[string]string{}
	for _, h := range kb.Headers {
		for _, name := range h.Names {
			var vals []string
			found := false
			for _, e := range r.MD {
				if strings.ToLower(e[0]) == strings.ToLower(name) {
					vals = append(vals, e[1:]...)
					found = true
				}
			}
			if found {
				out[h.Key] = strings.Join(vals, ",")
				break
			}
		}
	}
	if kb.Host != "" {
		out[kb.Host] = r.Host
	}
	if kb.Service != "" {
		out[kb.Service] = svc
	}
	if kb.Method != "" {
		out[kb.Method] = meth
	}
	for _, kv := range kb.Const {
		out[kv.K] = kv.V
	}
	return out, true
}

func vfC41GenKeysPlan(rt *rapid.T) vfC41KeysPlan {
	p := vfC41KeysPlan{Dirty: rapid.IntRange(0, 4).Draw(rt, "dirty") == 0}
	// distinct (service, method) names over all builders
	var pairs [][2]string
	for _, s := range vfC41SvcPool {
		for _, m := range vfC41MethPool {
			pairs = append(pairs, [2]string{s, m})
		}
	}
	pairs = rapid.Permutation(pairs).Draw(rt, "pairs")
	nkb := rapid.IntRange(1, 3).Draw(rt, "nkb")
	for b := 0; b < nkb; b++ {
		kb := vfC41KB{}
		nn := rapid.IntRange(1, 2).Draw(rt, "nnames")
		kb.Names = append(kb.Names, pairs[:nn]...)
		pairs = pairs[nn:]
		keys := rapid.Permutation(vfC41KeyPool).Draw(rt, "keys")
		take := func() string { k := keys[0]; keys = keys[1:]; return k }
		nh := rapid.IntRange(0, 3).Draw(rt, "nheaders")
		for i := 0; i < nh; i++ {
			names := rapid.Permutation(vfC41HdrPool).Draw(rt, "hnames")
			kb.Headers = append(kb.Headers, vfC41Hdr{Key: take(), Names: names[:rapid.IntRange(1, 3).Draw(rt, "nnames")]})
		}
		if rapid.Bool().Draw(rt, "hostkey") {
			kb.Host = take()
		}
		if rapid.Bool().Draw(rt, "svckey") {
			kb.Service = take()
		}
		if rapid.Bool().Draw(rt, "methkey") {
			kb.Method = take()
		}
		nc := rapid.IntRange(0, 2).Draw(rt, "nconst")
		for i := 0; i < nc; i++ {
			kb.Const = append(kb.Const, vfC41KV{K: take(), V: vfC41GenValue(rt, false)})
		}
		p.KBs = append(p.KBs, kb)
	}
	// requests: mostly on one configured path so that pairs are comparable
	mainKB := p.KBs[rapid.IntRange(0, nkb-1).Draw(rt, "mainkb")]
	mainName := mainKB.Names[0]
	mainPath := "/" + mainName[0] + "/" + mainName[1]
	if mainName[1] == "" {
		mainPath += rapid.SampledFrom([]string{"m0", "zz"}).Draw(rt, "mainmeth")
	}
	nreq := rapid.IntRange(2, vk.Pick(8, 14)).Draw(rt, "nreq")
	for i := 0; i < nreq; i++ {
		r := vfC41Req{Host: rapid.SampledFrom([]string{"host.example:443", "other"}).Draw(rt, "host"), Path: mainPath}
		switch rapid.IntRange(0, 9).Draw(rt, "pathkind") {
		case 0:
			r.Path = "/" + rapid.SampledFrom(vfC41SvcPool).Draw(rt, "svc") + "/" + rapid.SampledFrom([]string{"m0", "m1", "zz"}).Draw(rt, "meth")
		case 1:
			r.Path = "/unknown.Svc/m0"
		}
		// derived request: merge two adjacent keys of an earlier request's map
		// into one header value "v1,k2=v2" (dirty mode only)
		if p.Dirty && i > 0 && rapid.IntRange(0, 2).Draw(rt, "merge") == 0 {
			src := p.Reqs[rapid.IntRange(0, i-1).Draw(rt, "src")]
			if m, ok := vfC41Ref(p.KBs, src); ok && len(m) >= 2 {
				var ks []string
				for k := range m {
					ks = append(ks, k)
				}
				sort.Strings(ks)
				j := rapid.IntRange(0, len(ks)-2).Draw(rt, "adj")
				k1, k2 := ks[j], ks[j+1]
				r = vfC41Req{Host: src.Host, Path: src.Path}
				// header names feeding k1 / k2 in the matched builder
				feeds := func(k string) map[string]bool {
					out := map[string]bool{}
					for _, kb := range p.KBs {
						for _, h := range kb.Headers {
							if h.Key == k {
								for _, n := range h.Names {
									out[strings.ToLower(n)] = true
								}
							}
						}
					}
					return out
				}
				f1, f2 := feeds(k1), feeds(k2)
				done := false
				for _, e := range src.MD {
					n := strings.ToLower(e[0])
					switch {
					case f1[n] && !done:
						r.MD = append(r.MD, []string{e[0], m[k1] + "," + k2 + "=" + m[k2]})
						done = true
					case f1[n] || f2[n]:
					default:
						r.MD = append(r.MD, e)
					}
				}
				p.Reqs = append(p.Reqs, r)
				continue
			}
		}
		nmd := rapid.IntRange(0, 5).Draw(rt, "nmd")
		used := map[string]bool{}
		for k := 0; k < nmd; k++ {
			name := rapid.SampledFrom(vfC41HdrPool).Draw(rt, "hname")
			if used[name] {
				continue
			}
			used[name] = true
			e := []string{name}
			nv := rapid.SampledFrom([]int{1, 1, 1, 2, 3}).Draw(rt, "nvals")
			for v := 0; v < nv; v++ {
				e = append(e, vfC41GenValue(rt, p.Dirty))
			}
			r.MD = append(r.MD, e)
		}
		p.Reqs = append(p.Reqs, r)
	}
	return p
}

func vfC41HasSep(m map[string]string) bool {
	for _, v := range m {
		if strings.ContainsAny(v, ",=") {
			return true
		}
	}
	return false
}

func vfC41RunKeys(_ *testing.T, p vfC41KeysPlan) vk.Result {
	cfg := &rlspb.RouteLookupConfig{}
	for _, kb := range p.KBs {
		pb := &rlspb.GrpcKeyBuilder{}
		for _, nm := range kb.Names {
			pb.Names = append(pb.Names, &rlspb.GrpcKeyBuilder_Name{Service: nm[0], Method: nm[1]})
		}
		for _, h := range kb.Headers {
			pb.Headers = append(pb.Headers, &rlspb.NameMatcher{Key: h.Key, Names: h.Names})
		}
		if kb.Host != "" || kb.Service != "" || kb.Method != "" {
			pb.ExtraKeys = &rlspb.GrpcKeyBuilder_ExtraKeys{Host: kb.Host, Service: kb.Service, Method: kb.Method}
		}
		if len(kb.Const) > 0 {
			pb.ConstantKeys = map[string]string{}
			for _, kv := range kb.Const {
				pb.ConstantKeys[kv.K] = kv.V
			}
		}
		cfg.GrpcKeybuilders = append(cfg.GrpcKeybuilders, pb)
	}
	bm, err := MakeBuilderMap(cfg)
	if err != nil {
		// the generator only produces valid configs (distinct keys and names)
		return vk.Bad("MakeBuilderMap rejected a valid config: %v", err)
	}
	res := vk.Result{}
	type out struct {
		m  map[string]string
		s  string
		ok bool
	}
	outs := make([]out, len(p.Reqs))
	sep, multi, fallback, unmatched := false, false, false, false
	for i, r := range p.Reqs {
		if strings.Count(r.Path, "/") != 2 || !strings.HasPrefix(r.Path, "/") {
			return vk.Result{Discard: true}
		}
		md := metadata.MD{}
		for _, e := range r.MD {
			if len(e) < 2 {
				return vk.Result{Discard: true}
			}
			md.Append(e[0], e[1:]...)
			if len(e) > 2 {
				multi = true
			}
		}
		km := bm.RLSKey(md, r.Host, r.Path)
		want, ok := vfC41Ref(p.KBs, r)
		if !ok {
			unmatched = true
			if km.Map != nil || km.Str != "" {
				return vk.Bad("request %d %s: no key builder matches but RLSKey returned %v / %q", i, r.Path, km.Map, km.Str)
			}
		} else {
			if km.Map == nil || !reflect.DeepEqual(km.Map, want) {
				return vk.Bad("request %d %s md=%v host=%q: RLSKey map %v, want %v", i, r.Path, r.MD, r.Host, km.Map, want)
			}
			if _, exact := bm[r.Path]; !exact {
				fallback = true
			}
		}
		if vfC41HasSep(km.Map) {
			sep = true
		}
		outs[i] = out{km.Map, km.Str, ok}
	}
	// injectivity of the cache key (path, Str)
	var known *vk.Result
	comparable := 0
	for i := range p.Reqs {
		for j := i + 1; j < len(p.Reqs); j++ {
			if p.Reqs[i].Path != p.Reqs[j].Path || !outs[i].ok {
				continue
			}
			if reflect.DeepEqual(outs[i].m, outs[j].m) {
				continue
			}
			comparable++
			if outs[i].s != outs[j].s {
				continue
			}
			r := vk.Bad("requests %d and %d on %s have different key maps %v and %v but the same cache key string %q", i, j, p.Reqs[i].Path, outs[i].m, outs[j].m, outs[i].s)
			// Signature c41.value_contains_separator: the colliding pair involves
			// a value containing ',' or '='.
			if vfC41HasSep(outs[i].m) || vfC41HasSep(outs[j].m) {
				if known == nil {
					r.Sig = "c41.value_contains_separator"
					known = &r
				}
				continue
			}
			return r
		}
	}
	if p.Dirty {
		res.Classes = append(res.Classes, "dirty_values")
	} else {
		res.Classes = append(res.Classes, "clean_values")
	}
	if sep {
		res.Classes = append(res.Classes, "value_has_separator")
	}
	if multi {
		res.Classes = append(res.Classes, "multi_valued_header")
	}
	if fallback {
		res.Classes = append(res.Classes, "service_wildcard_match")
	}
	if unmatched {
		res.Classes = append(res.Classes, "no_builder")
	}
	if comparable > 0 {
		res.Classes = append(res.Classes, "has_comparable_pair")
	}
	res.NonTrivial = sep && comparable > 0
	res.Steps = len(p.Reqs)
	if known != nil {
		known.Classes = append(res.Classes, "known:value_contains_separator")
		return *known
	}
	return res
}

func TestVerifC41Keys(t *testing.T) {
	vk.Check(t, vk.Unit[vfC41KeysPlan]{
		ID: "C41", Name: "keys",
		Rule: fmt.Sprintf("1..3 key builders with distinct (service, method|wildcard) names, 0..3 header matchers (1..3 header names each, mixed case), optional host/service/method extra keys and 0..2 constants, all keys distinct (pool %v); 2..8/14 requests mostly on one configured path with 0..5 headers of 1..3 values. 80%% clean values (alphabet '12ab .-', commas only through multi-value joins), 20%% dirty values (alphabet '12ab,=' plus requests derived from an earlier one by merging two adjacent keys into one value 'v1,k2=v2'). Oracle: Map == reference model; for every pair on the same path: Map differs => Str differs. non-trivial = some value contains ',' or '=' and at least one comparable pair", vfC41KeyPool),
		Gen:  vfC41GenKeysPlan, Run: vfC41RunKeys,
	})
}
