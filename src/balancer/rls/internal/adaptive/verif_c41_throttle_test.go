package adaptive

// C41 (adaptive throttler part): the throttle probability is
// (requests - 2*accepts)/(requests + 8) with requests/accepts counted over
// exactly the lookback window (30 s in 100 bins of 300 ms: an event recorded in
// bin b counts while head-b < 100, head = the latest bin the lookback has seen;
// the clock may step backwards). Clock and random source are the package's own
// test hooks (timeNowFunc, randFunc), both pinned by the plan.

import (
	"math"
	"testing"
	"time"

	"google.golang.org/grpc/internal/verifkit/vk"
	"pgregory.net/rapid"
)

type vfC41ThEv struct {
	// Dt: step of the injected clock before the event, in ns (may be negative).
	Dt int64 `json:"dt"`
	// Kind 0: ShouldThrottle, 1: RegisterBackendResponse(false), 2: RegisterBackendResponse(true)
	Kind int `json:"kind"`
	// ShouldThrottle: RKind 0 -> random value R; 1 -> exactly the model
	// probability (must not throttle); 2 -> the float just below it (must
	// throttle when positive); 3 -> 0.
	RKind int     `json:"rkind,omitempty"`
	R     float64 `json:"r,omitempty"`
}

type vfC41ThPlan struct {
	Offset int64       `json:"offset"` // start offset inside a bin, ns
	Events []vfC41ThEv `json:"events"`
}

const (
	vfC41Width = int64(300 * time.Millisecond)
	vfC41Bins  = int64(100)
)

func vfC41GenThPlan(rt *rapid.T) vfC41ThPlan {
	p := vfC41ThPlan{Offset: rapid.SampledFrom([]int64{0, 1, vfC41Width - 1, vfC41Width / 2}).Draw(rt, "offset")}
	n := rapid.IntRange(5, vk.Pick(60, 300)).Draw(rt, "n")
	accBias := rapid.IntRange(1, 5).Draw(rt, "accbias")
	for i := 0; i < n; i++ {
		var e vfC41ThEv
		switch rapid.IntRange(0, 11).Draw(rt, "dtkind") {
		case 0:
			e.Dt = 0
		case 1: // to a bin edge +-1ns
			e.Dt = vfC41Width*rapid.Int64Range(1, 3).Draw(rt, "k") + rapid.Int64Range(-1, 1).Draw(rt, "d")
		case 2: // around the full window
			e.Dt = vfC41Width*rapid.Int64Range(97, 102).Draw(rt, "k") + rapid.Int64Range(-1, 1).Draw(rt, "d")
		case 3: // backwards a little
			e.Dt = -rapid.Int64Range(0, 5*int64(time.Second)).Draw(rt, "back")
		case 4: // backwards beyond the window or far forward
			if rapid.Bool().Draw(rt, "farback") {
				e.Dt = -rapid.Int64Range(25*int64(time.Second), 45*int64(time.Second)).Draw(rt, "back")
			} else {
				e.Dt = rapid.Int64Range(25*int64(time.Second), 90*int64(time.Second)).Draw(rt, "fwd")
			}
		case 5, 6:
			e.Dt = rapid.Int64Range(0, 6*int64(time.Second)).Draw(rt, "dt")
		default:
			e.Dt = rapid.Int64Range(0, 400*int64(time.Millisecond)).Draw(rt, "dt")
		}
		switch k := rapid.IntRange(0, 9).Draw(rt, "kind"); {
		case k <= 3:
			e.Kind = 0
			e.RKind = rapid.IntRange(0, 3).Draw(rt, "rkind")
			e.R = rapid.Float64Range(0, 0.999999).Draw(rt, "r")
		case k <= 3+accBias/2:
			e.Kind = 1
		default:
			e.Kind = 2
		}
		p.Events = append(p.Events, e)
	}
	return p
}

func vfC41RunTh(_ *testing.T, p vfC41ThPlan) vk.Result {
	base := time.Unix(1_700_000_000, 0).UnixNano()
	base -= base % vfC41Width
	now := base + 1000*vfC41Width + p.Offset

	savedNow, savedRand := timeNowFunc, randFunc
	defer func() { timeNowFunc, randFunc = savedNow, savedRand }()
	timeNowFunc = func() time.Time { return time.Unix(0, now) }
	var r float64
	randCalls := 0
	randFunc = func() float64 { randCalls++; return r }

	th := New()

	// model
	var accBins, thrBins []int64
	var headA, headT int64
	binOf := func(t int64) int64 { return t / vfC41Width }
	count := func(bins []int64, head int64) (in, total int) {
		for _, b := range bins {
			if head-b < vfC41Bins {
				in++
			}
		}
		return in, len(bins)
	}
	maxI := func(a, b int64) int64 {
		if a > b {
			return a
		}
		return b
	}
	expired, positive, backwards, throttledSeen, edge := false, false, false, false, false
	for i, e := range p.Events {
		now += e.Dt
		if now < base {
			now = base // keep the injected clock positive and sane
		}
		if e.Dt < 0 {
			backwards = true
		}
		b := binOf(now)
		switch e.Kind {
		case 1:
			th.RegisterBackendResponse(false)
			headA = maxI(headA, b)
			accBins = append(accBins, b)
		case 2:
			th.RegisterBackendResponse(true)
			headT = maxI(headT, b)
			thrBins = append(thrBins, b)
		case 0:
			headA, headT = maxI(headA, b), maxI(headT, b)
			a, atot := count(accBins, headA)
			t, ttot := count(thrBins, headT)
			if a < atot || t < ttot {
				expired = true
			}
			for _, bb := range accBins {
				if headA-bb == vfC41Bins-1 || headA-bb == vfC41Bins {
					edge = true
				}
			}
			req := float64(a + t)
			prob := (req - 2*float64(a)) / (req + 8)
			if prob > 0 {
				positive = true
			}
			switch e.RKind {
			case 1:
				r = math.Max(prob, 0)
			case 2:
				r = math.Max(math.Nextafter(prob, math.Inf(-1)), 0)
			case 3:
				r = 0
			default:
				r = e.R
			}
			if r >= 1 || r < 0 || math.IsNaN(r) {
				return vk.Result{Discard: true}
			}
			randCalls = 0
			got := th.ShouldThrottle()
			if randCalls != 1 {
				return vk.Bad("event %d: ShouldThrottle drew %d random numbers", i, randCalls)
			}
			want := prob > r
			if got != want {
				return vk.Bad("event %d: ShouldThrottle() = %v with random %v; window holds %d accepts (of %d recorded) and %d throttles (of %d) => probability %v", i, got, r, a, atot, t, ttot, prob)
			}
			if want {
				throttledSeen = true
				thrBins = append(thrBins, b)
			}
		default:
			return vk.Result{Discard: true}
		}
	}
	res := vk.Result{Steps: len(p.Events), NonTrivial: expired && positive}
	for _, c := range []struct {
		k string
		v bool
	}{{"events_left_window", expired}, {"probability_positive", positive}, {"clock_went_backwards", backwards}, {"throttled", throttledSeen}, {"event_at_window_edge", edge}} {
		if c.v {
			res.Classes = append(res.Classes, c.k)
		}
	}
	return res
}

func TestVerifC41Throttle(t *testing.T) {
	vk.Check(t, vk.Unit[vfC41ThPlan]{
		ID: "C41", Name: "throttle",
		Rule: "5..60/300 events (ShouldThrottle / accepted response / throttled response) on an injected clock with steps from {0, k*300ms±1ns, 97..102 bins ±1ns, backwards 0..5s, backwards 25..45s, forwards 25..90s, 0..6s, 0..400ms} and a start offset inside a bin; the random value of each ShouldThrottle is pinned to a plan value, exactly the model probability, the float just below it, or 0. Model: per lookback, head = latest bin seen, an event in bin b counts iff head-b < 100; P = (req-2*acc)/(req+8); throttle iff P > random, a throttled call itself counts as a throttle. non-trivial = some recorded event had left the window at a query and the probability was positive at some query",
		Gen:  vfC41GenThPlan, Run: vfC41RunTh,
	})
}
