package rls

// C41 (cache part): dataCache versus an LRU model under virtual time
// (synctest bubble): currentSize == sum of entry sizes, eviction removes
// least-recently-used entries first and stops at the first entry that is not
// yet evictable, expired-entry sweeps remove exactly the expired entries.

import (
	"fmt"
	"testing"
	"time"

	internalgrpclog "google.golang.org/grpc/internal/grpclog"
	"google.golang.org/grpc/internal/verifkit/vk"
	"pgregory.net/rapid"
)

type vfC41CacheOp struct {
	// Kind: 0 get, 1 add (only executed when the key is absent, as in the
	// picker), 2 updateEntrySize (only for a present key), 3 resize,
	// 4 evictExpiredEntries, 5 advance time
	Kind int `json:"kind"`
	Key  int `json:"key"`
	// add / update
	Size int64 `json:"size,omitempty"`
	// add: durations relative to now (ms); negative = already in the past
	EvictInMs   int64 `json:"evict_in_ms,omitempty"`
	ExpireInMs  int64 `json:"expire_in_ms,omitempty"`
	BackoffInMs int64 `json:"backoff_in_ms,omitempty"` // 0 = zero time
	// resize
	NewMax int64 `json:"new_max,omitempty"`
	// advance
	Ms int64 `json:"ms,omitempty"`
}

type vfC41CachePlan struct {
	Max  int64          `json:"max"`
	Ops  []vfC41CacheOp `json:"ops"`
	Stop bool           `json:"stop"`
}

func vfC41GenCachePlan(rt *rapid.T) vfC41CachePlan {
	p := vfC41CachePlan{Max: rapid.SampledFrom([]int64{10, 20, 5, 8, 1, 0, 50, 100}).Draw(rt, "max"), Stop: rapid.Bool().Draw(rt, "stop")}
	nk := rapid.IntRange(2, 8).Draw(rt, "nkeys")
	nops := rapid.IntRange(8, vk.Pick(40, 300)).Draw(rt, "nops")
	for i := 0; i < nops; i++ {
		op := vfC41CacheOp{Key: rapid.IntRange(0, nk-1).Draw(rt, "key")}
		switch k := rapid.IntRange(0, 15).Draw(rt, "kind"); {
		case k <= 2:
			op.Kind = 0
		case k <= 8:
			op.Kind = 1
			op.Size = rapid.SampledFrom([]int64{1, 2, 3, 5, 0, 8, 13, 60}).Draw(rt, "size")
			op.EvictInMs = rapid.SampledFrom([]int64{0, 5000, 5000, 1000, -1, 1}).Draw(rt, "evict")
			op.ExpireInMs = rapid.SampledFrom([]int64{10000, 2000, 0, 1, -5, 60000}).Draw(rt, "expire")
			op.BackoffInMs = rapid.SampledFrom([]int64{0, 0, 3000, 20000, -1}).Draw(rt, "backoff")
		case k <= 10:
			op.Kind = 2
			op.Size = rapid.SampledFrom([]int64{1, 2, 4, 0, 9, 30, 70}).Draw(rt, "size")
		case k == 11:
			op.Kind = 3
			op.NewMax = rapid.SampledFrom([]int64{10, 0, 1, 3, 5, 20, 50, 100}).Draw(rt, "newmax")
		case k == 12:
			op.Kind = 4
		default:
			op.Kind = 5
			op.Ms = rapid.SampledFrom([]int64{1000, 1, 999, 4000, 5000, 1001, 10000, 0}).Draw(rt, "ms")
		}
		p.Ops = append(p.Ops, op)
	}
	return p
}

type vfC41ModelEntry struct {
	key                            cacheKey
	size                           int64
	evictAt, expireAt, backoffExpA time.Time
}

func vfC41RunCache(t *testing.T, p vfC41CachePlan) vk.Result {
	var res vk.Result
	msg := vk.Bubble(t, func(t *testing.T) { res = vfC41RunCacheInBubble(p) })
	if msg != "" {
		return vk.Bad("%s", msg)
	}
	return res
}

func vfC41RunCacheInBubble(p vfC41CachePlan) vk.Result {
	if p.Max < 0 {
		return vk.Result{Discard: true}
	}
	dc := newDataCache(p.Max, internalgrpclog.NewPrefixLogger(logger, "[vfC41] "), "vfC41-target")
	// model: LRU order, front = least recently used
	var order []*vfC41ModelEntry
	max := p.Max
	var cur int64
	find := func(k cacheKey) int {
		for i, e := range order {
			if e.key == k {
				return i
			}
		}
		return -1
	}
	remove := func(i int) {
		cur -= order[i].size
		order = append(order[:i], order[i+1:]...)
	}
	stoppedYoung := false
	evictedAny := false
	mresize := func(sz int64) {
		for cur > sz {
			if len(order) == 0 {
				break
			}
			if order[0].evictAt.After(time.Now()) {
				stoppedYoung = true
				break
			}
			remove(0)
			evictedAny = true
		}
		max = sz
	}
	mkKey := func(i int) cacheKey { return cacheKey{path: fmt.Sprintf("/s/m%d", i), keys: fmt.Sprintf("k=%d", i)} }
	real := map[cacheKey]*cacheEntry{}

	check := func(when string) string {
		// accounted size == sum of the sizes of the entries in the cache
		var sum int64
		for _, e := range dc.entries {
			sum += e.size
		}
		if dc.currentSize != sum {
			return fmt.Sprintf("%s: currentSize %d but the entries' sizes sum to %d", when, dc.currentSize, sum)
		}
		if dc.currentSize != cur {
			return fmt.Sprintf("%s: currentSize %d, model %d", when, dc.currentSize, cur)
		}
		if dc.maxSize != max {
			return fmt.Sprintf("%s: maxSize %d, model %d", when, dc.maxSize, max)
		}
		if len(dc.entries) != len(order) || dc.keys.ll.Len() != len(order) || len(dc.keys.m) != len(order) {
			return fmt.Sprintf("%s: cache holds %d entries (lru list %d, lru map %d), model %d", when, len(dc.entries), dc.keys.ll.Len(), len(dc.keys.m), len(order))
		}
		el := dc.keys.ll.Front()
		for i, me := range order {
			k := el.Value.(cacheKey)
			if k != me.key {
				return fmt.Sprintf("%s: LRU position %d holds %v, model %v", when, i, k, me.key)
			}
			ce, ok := dc.entries[k]
			if !ok || ce != real[k] || ce.size != me.size {
				return fmt.Sprintf("%s: entry %v missing or wrong (size %v, model %d)", when, k, ce, me.size)
			}
			el = el.Next()
		}
		return ""
	}

	for i, op := range p.Ops {
		key := mkKey(op.Key)
		now := time.Now()
		switch op.Kind {
		case 0:
			got := dc.getEntry(key)
			mi := find(key)
			if (got != nil) != (mi >= 0) {
				return vk.Bad("op %d: getEntry(%v) present=%v, model present=%v", i, key, got != nil, mi >= 0)
			}
			if mi >= 0 {
				if got != real[key] {
					return vk.Bad("op %d: getEntry(%v) returned a different entry", i, key)
				}
				me := order[mi]
				order = append(order[:mi], order[mi+1:]...)
				order = append(order, me)
			}
		case 1:
			if find(key) >= 0 {
				continue // precondition of addEntry: key absent (picker checks getEntry first)
			}
			if op.Size < 0 {
				return vk.Result{Discard: true}
			}
			e := &cacheEntry{size: op.Size, earliestEvictTime: now.Add(time.Duration(op.EvictInMs) * time.Millisecond), expiryTime: now.Add(time.Duration(op.ExpireInMs) * time.Millisecond)}
			if op.BackoffInMs != 0 {
				e.backoffExpiryTime = now.Add(time.Duration(op.BackoffInMs) * time.Millisecond)
			}
			_, ok := dc.addEntry(key, e)
			wantOK := op.Size <= max
			if ok != wantOK {
				return vk.Bad("op %d: addEntry(size %d) with max %d returned ok=%v", i, op.Size, max, ok)
			}
			if wantOK {
				real[key] = e
				order = append(order, &vfC41ModelEntry{key: key, size: op.Size, evictAt: e.earliestEvictTime, expireAt: e.expiryTime, backoffExpA: e.backoffExpiryTime})
				cur += op.Size
				if cur > max {
					mresize(max)
				}
			}
		case 2:
			mi := find(key)
			if mi < 0 || op.Size < 0 {
				continue // only entries in the cache get their size updated
			}
			dc.updateEntrySize(real[key], op.Size)
			cur += op.Size - order[mi].size
			order[mi].size = op.Size
		case 3:
			if op.NewMax < 0 {
				return vk.Result{Discard: true}
			}
			dc.resize(op.NewMax)
			mresize(op.NewMax)
		case 4:
			got := dc.evictExpiredEntries()
			want := false
			for j := 0; j < len(order); {
				e := order[j]
				if e.expireAt.After(now) || e.backoffExpA.After(now) {
					j++
					continue
				}
				remove(j)
				want = true
			}
			if got != want {
				return vk.Bad("op %d: evictExpiredEntries returned %v, model %v", i, got, want)
			}
		case 5:
			if op.Ms < 0 {
				return vk.Result{Discard: true}
			}
			time.Sleep(time.Duration(op.Ms) * time.Millisecond)
		default:
			return vk.Result{Discard: true}
		}
		for k := range real {
			if find(k) < 0 {
				delete(real, k)
			}
		}
		if m := check(fmt.Sprintf("after op %d %+v", i, op)); m != "" {
			return vk.Bad("%s", m)
		}
	}
	if p.Stop {
		dc.stop()
		if dc.currentSize != 0 || len(dc.entries) != 0 || dc.keys.ll.Len() != 0 {
			return vk.Bad("after stop: currentSize %d, %d entries, lru %d", dc.currentSize, len(dc.entries), dc.keys.ll.Len())
		}
		if dc.getEntry(mkKey(0)) != nil {
			return vk.Bad("getEntry after stop returned an entry")
		}
		if _, ok := dc.addEntry(mkKey(0), &cacheEntry{size: 0}); ok {
			return vk.Bad("addEntry after stop succeeded")
		}
	}
	out := vk.Result{NonTrivial: stoppedYoung, Steps: len(p.Ops)}
	if stoppedYoung {
		out.Classes = append(out.Classes, "eviction_stopped_at_young_entry")
	}
	if evictedAny {
		out.Classes = append(out.Classes, "lru_evicted")
	}
	if cur > max {
		out.Classes = append(out.Classes, "ends_over_max")
	}
	return out
}

func TestVerifC41Cache(t *testing.T) {
	vk.Check(t, vk.Unit[vfC41CachePlan]{
		ID: "C41", Name: "cache",
		Rule: "max size in {0,1,5,8,10,20,50,100}; 8..40/300 ops over 2..8 keys: get, add (only for an absent key — the picker's precondition; sizes 0..60 incl. larger than max; earliest-evict time -1ms..+5s, expiry -5ms..+60s, optional backoff expiry), updateEntrySize (present key), resize, evictExpiredEntries, advance virtual time (0..10s incl. exactly 5s, 999/1001ms), optional stop. Runs in a synctest bubble so time.Now inside cache.go is virtual. Model: ordered LRU list; after every op currentSize == Σ entry sizes == model, same keys in the same LRU order, same maxSize. non-trivial = an eviction pass stopped at an entry that was too young to evict",
		Gen:  vfC41GenCachePlan, Run: vfC41RunCache,
	})
}
