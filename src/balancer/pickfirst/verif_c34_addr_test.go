package pickfirst

// C34 (L1 part): address pre-processing. interleaveAddresses(deDupAddresses(in))
// is a permutation of the de-duplicated input that preserves the relative order
// within each address family, and equals an independent reference
// implementation of the RFC 8305 section 4 interleaving documented on
// interleaveAddresses (families alternate in order of first appearance, one
// address of the first family first).

import (
	"fmt"
	"testing"

	"google.golang.org/grpc/attributes"
	"google.golang.org/grpc/internal/verifkit/fakecc"
	"google.golang.org/grpc/internal/verifkit/vk"
	"google.golang.org/grpc/resolver"
	"pgregory.net/rapid"
)

// vfC34Pool: addresses whose family is known by construction.
// fam: 0 unknown, 4 IPv4 (incl. IPv4-mapped IPv6), 6 IPv6.
var vfC34Pool = []struct {
	addr string
	fam  int
}{
	{"10.0.0.1:80", 4}, {"10.0.0.2:80", 4}, {"192.168.1.1:443", 4}, {"127.0.0.1:1", 4}, {"[::ffff:1.2.3.4]:80", 4},
	{"[2001:db8::1]:80", 6}, {"[2001:db8::2]:80", 6}, {"[::1]:443", 6}, {"[fe80::1%eth0]:80", 6},
	{"localhost:80", 0}, {"10.0.0.1", 0}, {"unix:///tmp/x", 0}, {"[::1]", 0}, {"", 0}, {"example.com:443", 0}, {"10.0.0.1:80:80", 0},
}

type vfC34AddrItem struct {
	Pool       int    `json:"pool"`
	ServerName string `json:"sn,omitempty"`
	Attr       int    `json:"attr,omitempty"`    // 0 none, else attribute value
	BalAttr    int    `json:"balattr,omitempty"` // 0 none, else balancer attribute value (ignored for identity)
}

type vfC34AddrPlan struct {
	Items []vfC34AddrItem `json:"items"`
}

func vfC34GenAddr(rt *rapid.T) vfC34AddrPlan {
	n := fakecc.Uniform(rt, "n", 17)
	// restrict the pool per case so that duplicates and family mixes are common
	poolSize := 2 + fakecc.Uniform(rt, "pool", len(vfC34Pool)-1)
	offset := fakecc.Uniform(rt, "off", len(vfC34Pool))
	var p vfC34AddrPlan
	for i := 0; i < n; i++ {
		it := vfC34AddrItem{Pool: (offset + fakecc.Uniform(rt, "a", poolSize)*5) % len(vfC34Pool)}
		if fakecc.Uniform(rt, "sn", 8) == 0 {
			it.ServerName = "sn"
		}
		if fakecc.Uniform(rt, "at", 8) == 0 {
			it.Attr = 1 + fakecc.Uniform(rt, "atv", 2)
		}
		if fakecc.Uniform(rt, "bat", 4) == 0 {
			it.BalAttr = 1 + fakecc.Uniform(rt, "batv", 3)
		}
		p.Items = append(p.Items, it)
	}
	return p
}

func vfC34Build(it vfC34AddrItem) resolver.Address {
	a := resolver.Address{Addr: vfC34Pool[it.Pool].addr, ServerName: it.ServerName}
	if it.Attr != 0 {
		a.Attributes = attributes.New("k", it.Attr)
	}
	if it.BalAttr != 0 {
		a.BalancerAttributes = attributes.New("b", it.BalAttr)
	}
	return a
}

// identity of an address for de-duplication as documented ("each address
// appears only once"; a SubConn is keyed by Addr, ServerName and Attributes).
func vfC34Key(it vfC34AddrItem) string {
	return fmt.Sprintf("%d|%s|%d", it.Pool, it.ServerName, it.Attr)
}

func vfC34RunAddr(_ *testing.T, p vfC34AddrPlan) vk.Result {
	var in []resolver.Address
	for _, it := range p.Items {
		in = append(in, vfC34Build(it))
	}
	// reference de-duplication: first occurrence wins, order kept.
	var refItems []vfC34AddrItem
	seen := map[string]bool{}
	for _, it := range p.Items {
		if k := vfC34Key(it); !seen[k] {
			seen[k] = true
			refItems = append(refItems, it)
		}
	}
	dd := deDupAddresses(in)
	if len(dd) != len(refItems) {
		return vk.Bad("deDupAddresses returned %d addresses, reference %d; in=%v out=%v", len(dd), len(refItems), in, dd)
	}
	for i := range dd {
		if want := vfC34Build(refItems[i]); !dd[i].Equal(want) {
			return vk.Bad("deDupAddresses[%d] = %v, want first occurrence %v", i, dd[i], want)
		}
	}
	out := interleaveAddresses(dd)
	// reference interleaving: queues per family in order of first appearance,
	// round robin, skipping exhausted families.
	var order []int
	queues := map[int][]vfC34AddrItem{}
	for _, it := range refItems {
		f := vfC34Pool[it.Pool].fam
		if _, ok := queues[f]; !ok {
			order = append(order, f)
		}
		queues[f] = append(queues[f], it)
	}
	var want []vfC34AddrItem
	for len(want) < len(refItems) {
		for _, f := range order {
			if q := queues[f]; len(q) > 0 {
				want = append(want, q[0])
				queues[f] = q[1:]
			}
		}
	}
	if len(out) != len(want) {
		return vk.Bad("interleaveAddresses returned %d addresses for %d inputs: %v", len(out), len(want), out)
	}
	for i := range out {
		if w := vfC34Build(want[i]); !out[i].Equal(w) {
			return vk.Bad("interleaveAddresses[%d] = %v, reference (RFC 8305 alternation by first-seen family) %v; full out=%v", i, out[i], w, out)
		}
	}
	// statement-level invariants, checked independently of the reference order:
	// permutation of the de-duplicated input + intra-family order preserved.
	used := make([]bool, len(dd))
	for _, o := range out {
		found := false
		for j := range dd {
			if !used[j] && dd[j].Equal(o) {
				used[j], found = true, true
				break
			}
		}
		if !found {
			return vk.Bad("interleaveAddresses invented or duplicated %v", o)
		}
	}
	famOf := func(a resolver.Address) int {
		for _, e := range vfC34Pool {
			if e.addr == a.Addr {
				return e.fam
			}
		}
		return -1
	}
	for _, f := range order {
		var a, b []resolver.Address
		for _, x := range dd {
			if famOf(x) == f {
				a = append(a, x)
			}
		}
		for _, x := range out {
			if famOf(x) == f {
				b = append(b, x)
			}
		}
		for i := range a {
			if !a[i].Equal(b[i]) {
				return vk.Bad("relative order within family %d changed: %v -> %v", f, a, b)
			}
		}
	}
	res := vk.Result{NonTrivial: len(order) >= 2 && len(refItems) >= 3}
	res.Classes = append(res.Classes, fmt.Sprintf("families_%d", len(order)))
	if len(refItems) < len(p.Items) {
		res.Classes = append(res.Classes, "had_duplicates")
	}
	return res
}

func TestVerifC34Addr(t *testing.T) {
	vk.Check(t, vk.Unit[vfC34AddrPlan]{
		ID: "C34", Name: "addr",
		Rule: "lists of 0..16 addresses drawn from a per-case sub-pool of 16 strings with family known by construction (IPv4, IPv4-mapped IPv6, IPv6 incl. zone, and unparsable forms: no port, hostname, unix, empty), with ServerName/Attributes/BalancerAttributes variations (BalancerAttributes do not affect identity). non-trivial = >=3 distinct addresses of >=2 families",
		Gen:  vfC34GenAddr, Run: vfC34RunAddr,
	})
}
