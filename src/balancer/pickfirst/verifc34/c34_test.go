package verifc34_test

// C34: pick_first (balancer/pickfirst) driven through its registered builder
// (black-box; this virtual package lives below balancer/pickfirst only so that
// it may replace the random hooks of balancer/pickfirst/internal by
// plan-driven deterministic ones)
// with a recording ClientConn and the fake addrConn automaton (fakecc), one
// synctest bubble per case (happy-eyeballs timer = virtual time).
//
// The oracle is a set of history invariants evaluated over fakecc's totally
// ordered event log, with a small statement-level model (current address list
// in reference order, pass bookkeeping, sticky-TF flag, the READY subchannel):
//
//	S1 READY reported / SubConn picked  => that SubConn's latest state is READY,
//	   it was not shut down, and (health listener enabled) its last health
//	   state is READY
//	S2 after a completed failed pass: every report is TRANSIENT_FAILURE until a
//	   subchannel becomes READY (CONNECTING->IDLE counts as "was READY", see notes)
//	S3 when every address of the list has failed in the pass, TRANSIENT_FAILURE
//	   is reported in that very step
//	S5 a subchannel becoming READY => all other subchannels had Shutdown() called
//	S6 Connect() calls of a pass follow the reference order dedup+interleave of
//	   the resolver list, at most one per address; an address may be skipped
//	   only while its reused subchannel is CONNECTING or in TRANSIENT_FAILURE

import (
	"errors"
	"fmt"
	"os"
	"testing"
	"testing/synctest"
	"time"

	"google.golang.org/grpc/balancer"
	"google.golang.org/grpc/balancer/pickfirst"
	pfinternal "google.golang.org/grpc/balancer/pickfirst/internal"
	"google.golang.org/grpc/connectivity"
	"google.golang.org/grpc/internal/verifkit/fakecc"
	"google.golang.org/grpc/internal/verifkit/vk"
	"google.golang.org/grpc/resolver"
	"pgregory.net/rapid"
)

// address pool: family known by construction (4, 6, 0 = unknown).
var pool = []struct {
	addr string
	fam  int
}{
	{"10.0.0.1:80", 4}, {"10.0.0.2:80", 4}, {"10.0.0.3:80", 4}, {"[::ffff:1.2.3.4]:80", 4},
	{"[2001:db8::1]:80", 6}, {"[2001:db8::2]:80", 6}, {"[2001:db8::3]:80", 6},
	{"backend-a", 0}, {"backend-b:http", 0},
}

const (
	opUpdate = iota
	opDeliver
	opAdvance
	opHealth
	opResolverError
	opExitIdle
	opPick
)

type op struct {
	K       int   `json:"k"`
	A       int   `json:"a"`
	B       int   `json:"b"`
	Addrs   []int `json:"addrs,omitempty"`  // pool indices (update)
	Groups  []int `json:"groups,omitempty"` // endpoint sizes; empty = use the Addresses field
	Shuffle bool  `json:"shuffle,omitempty"`
	Keys    []int `json:"keys,omitempty"` // shuffle keys (one per address), 0..999
	Health  bool  `json:"health,omitempty"`
}

type plan struct {
	QueuedAfterShutdown int  `json:"queued_after_shutdown"`
	Ops                 []op `json:"ops"`
}

func genPlan(rt *rapid.T) plan {
	p := plan{QueuedAfterShutdown: fakecc.Weighted(rt, "queued", 60, 30, 10)}
	n := 3 + fakecc.Uniform(rt, "n", vk.Pick(28, 248))
	if n < 14 && fakecc.Uniform(rt, "short", 6) > 0 {
		n += 14
	}
	// per-case profile: how likely a connection attempt fails
	failBias := []int{55, 82, 96}[fakecc.Uniform(rt, "failbias", 3)]
	health := fakecc.Uniform(rt, "health", 4) == 0
	for i := 0; i < n; i++ {
		k := fakecc.Weighted(rt, "kind", 64, 6, 13, 5, 3, 4, 5)
		if i == 0 && fakecc.Uniform(rt, "first", 10) > 0 {
			k = 1
		}
		var o op
		switch k {
		case 0:
			o.K = opDeliver
			o.A = fakecc.Uniform(rt, "sc", 16)
			// event selector 0..99; for a CONNECTING subchannel: < failBias => TF,
			// < 96 => READY, else IDLE.
			o.B = fakecc.Uniform(rt, "ev", 100)
			if o.B < failBias {
				o.B = 0
			} else if o.B < 96 {
				o.B = 1
			} else {
				o.B = 2
			}
		case 1:
			o.K = opUpdate
			m := fakecc.Weighted(rt, "naddr", 4, 6, 10, 24, 22, 16, 10, 8) // 0..7 addresses
			sub := 3 + fakecc.Uniform(rt, "sub", len(pool)-2)
			off := fakecc.Uniform(rt, "off", len(pool))
			for j := 0; j < m; j++ {
				o.Addrs = append(o.Addrs, (off+fakecc.Uniform(rt, "addr", sub)*4)%len(pool))
			}
			if m > 0 && fakecc.Uniform(rt, "useEps", 3) > 0 {
				left := m
				for left > 0 {
					g := 1 + fakecc.Uniform(rt, "group", 3)
					if g > left {
						g = left
					}
					o.Groups = append(o.Groups, g)
					left -= g
				}
			}
			o.Shuffle = fakecc.Uniform(rt, "shuffle", 4) == 0
			if o.Shuffle {
				for j := 0; j < m; j++ {
					o.Keys = append(o.Keys, fakecc.Uniform(rt, "key", 1000))
				}
			}
			o.Health = health
		case 2:
			o.K = opAdvance
			o.A = fakecc.Weighted(rt, "dt", 70, 20, 10)
		case 3:
			o.K = opHealth
			o.A = fakecc.Uniform(rt, "sc", 4)
			o.B = fakecc.Weighted(rt, "hs", 60, 20, 20)
		case 4:
			o.K = opResolverError
		case 5:
			o.K = opExitIdle
		default:
			o.K = opPick
		}
		p.Ops = append(p.Ops, o)
	}
	return p
}

// refProcess is the reference for deDup + interleave (RFC 8305 section 4 as
// documented on interleaveAddresses), on pool indices.
func refProcess(in []int) []int {
	var dd []int
	seen := map[int]bool{}
	for _, x := range in {
		if !seen[x] {
			seen[x] = true
			dd = append(dd, x)
		}
	}
	var order []int
	q := map[int][]int{}
	for _, x := range dd {
		f := pool[x].fam
		if _, ok := q[f]; !ok {
			order = append(order, f)
		}
		q[f] = append(q[f], x)
	}
	var out []int
	for len(out) < len(dd) {
		for _, f := range order {
			if len(q[f]) > 0 {
				out = append(out, q[f][0])
				q[f] = q[f][1:]
			}
		}
	}
	return out
}

type model struct {
	L   []string       // current list in reference order
	idx map[string]int // address -> position in L

	skipOK map[string]bool // address may be passed over in this pass (reused subchannel was CONNECTING / in TF)

	passActive bool
	lastIdx    int
	connected  map[string]bool
	failed     map[string]bool // TRANSIENT_FAILURE delivered during this pass (never cleared within the pass)
	failedLast map[string]bool // ... and no Connect() for the address since (no attempt outstanding)
	failedAt0  map[string]bool // reused subchannel was in TRANSIENT_FAILURE at pass start; cleared if it is re-attempted

	sticky        bool
	ready         *fakecc.SubConn
	healthEnabled bool
	healthOK      bool

	state      map[*fakecc.SubConn]connectivity.State
	shut       map[*fakecc.SubConn]bool
	liveByAddr map[string]*fakecc.SubConn
	bornSticky map[*fakecc.SubConn]bool

	reported     connectivity.State
	haveReported bool

	// per-op scratch
	othersMustBe  *fakecc.SubConn // READY/IDLE winner: all others must be shut down at end of op
	deliveringTo  *fakecc.SubConn
	deliveringSt  connectivity.State
	knownSigHits  int
	violation     string
	failedPasses  int
	readyCount    int
	connIdleCount int
	skipsJustifed int
	outOfTurnTF   int
	timerConnects int
}

func (m *model) startPass() {
	m.passActive = true
	m.lastIdx = -1
	m.connected = map[string]bool{}
	m.failed = map[string]bool{}
	m.failedLast = map[string]bool{}
	m.failedAt0 = map[string]bool{}
	m.skipOK = map[string]bool{}
	for a := range m.idx {
		if sc := m.liveByAddr[a]; sc != nil {
			if m.state[sc] == connectivity.TransientFailure {
				m.failedAt0[a] = true
			}
			if m.state[sc] == connectivity.TransientFailure || m.state[sc] == connectivity.Connecting {
				m.skipOK[a] = true
			}
		}
	}
}

// mayEndPass: every address has failed at least once in this pass (or was
// failing when the pass started and has not been re-attempted). pick_first MAY
// end the pass now: whether it waits for the outcome of a re-attempt of an
// address whose reused subchannel already failed during this pass depends on
// where its cursor stands, and the statement does not decide that.
func (m *model) mayEndPass() bool {
	if len(m.L) == 0 {
		return false
	}
	for _, a := range m.L {
		if m.liveByAddr[a] == nil || !(m.failed[a] || m.failedAt0[a]) {
			return false
		}
	}
	return true
}

// allFailed: every address has failed and no attempt is outstanding; pick_first
// MUST have reported TRANSIENT_FAILURE.
func (m *model) allFailed() bool {
	if len(m.L) == 0 {
		return false
	}
	for _, a := range m.L {
		if m.liveByAddr[a] == nil || !(m.failedLast[a] || m.failedAt0[a]) {
			return false
		}
	}
	return true
}

func (m *model) bad(format string, args ...any) {
	if m.violation == "" {
		m.violation = fmt.Sprintf(format, args...)
	}
}

// walk processes one fakecc log entry.
func (m *model) walk(e fakecc.Entry, inTimerOp bool) {
	switch e.Kind {
	case fakecc.KNewSubConn:
		if len(e.SC.Addrs) != 1 {
			m.bad("%v: SubConn created with %d addresses", e, len(e.SC.Addrs))
			return
		}
		a := e.SC.Addrs[0].Addr
		if _, ok := m.idx[a]; !ok {
			m.bad("%v: SubConn created for %q which is not in the current address list %v", e, a, m.L)
		}
		if old := m.liveByAddr[a]; old != nil {
			m.bad("%v: second live SubConn for address %q (first %v)", e, a, old)
		}
		m.liveByAddr[a] = e.SC
		m.state[e.SC] = connectivity.Idle
		m.bornSticky[e.SC] = m.sticky
	case fakecc.KShutdown:
		m.shut[e.SC] = true
		a := e.SC.Addrs[0].Addr
		if m.liveByAddr[a] == e.SC {
			delete(m.liveByAddr, a)
		}
		if m.ready == e.SC {
			m.ready = nil
		}
	case fakecc.KConnect:
		if m.shut[e.SC] || !m.passActive {
			return
		}
		a := e.SC.Addrs[0].Addr
		i, ok := m.idx[a]
		if !ok {
			m.bad("%v: Connect on %q which is not in the address list", e, a)
			return
		}
		if m.connected[a] {
			m.bad("%v: second Connect() for address %q within one pass (list %v)", e, a, m.L)
			return
		}
		{
			if i <= m.lastIdx {
				m.bad("%v: Connect() for %q (position %d) after position %d was already attempted: out of order for list %v", e, a, i, m.lastIdx, m.L)
				return
			}
			for j := m.lastIdx + 1; j < i; j++ {
				// An address may be passed over only if it has a subchannel that was
				// CONNECTING or in TRANSIENT_FAILURE at some point of this pass
				// before being attempted (the moment of passing over is not
				// observable, so this is the weakest sound condition).
				if sc := m.liveByAddr[m.L[j]]; sc == nil || !m.skipOK[m.L[j]] {
					m.bad("%v: Connect() for %q (position %d) skipped %q (position %d) whose subchannel is %v/%v and was never CONNECTING/TRANSIENT_FAILURE in this pass; list %v", e, a, i, m.L[j], j, sc, m.state[sc], m.L)
					return
				}
				m.skipsJustifed++
			}
			m.lastIdx = i
		}
		m.connected[a] = true
		// A failure observed during the pass stays (pick_first does not wait
		// for the outcome of a re-attempt of an address that already failed
		// in this pass); only the "was failing when the pass started" mark of
		// a reused subchannel is void once it is re-attempted.
		m.failedAt0[a] = false
		m.failedLast[a] = false
		if inTimerOp {
			m.timerConnects++
		}
	case fakecc.KDeliver:
		prev := m.state[e.SC]
		m.state[e.SC] = e.Conn
		m.deliveringTo, m.deliveringSt = e.SC, e.Conn
		if m.shut[e.SC] {
			return // update queued before Shutdown(): must be ignored by the policy
		}
		a := e.SC.Addrs[0].Addr
		switch e.Conn {
		case connectivity.TransientFailure:
			if m.passActive {
				if _, ok := m.idx[a]; ok && m.liveByAddr[a] == e.SC {
					m.failed[a] = true
					m.failedLast[a] = true
					m.skipOK[a] = true
					if m.idx[a] != m.lastIdx {
						m.outOfTurnTF++
					}
				}
			}
		case connectivity.Connecting:
			if m.passActive && m.liveByAddr[a] == e.SC && !m.connected[a] {
				m.skipOK[a] = true
			}
		case connectivity.Ready:
			m.ready, m.passActive, m.sticky, m.healthOK = e.SC, false, false, false
			m.othersMustBe = e.SC
			m.readyCount++
		case connectivity.Idle:
			if prev == connectivity.Ready || prev == connectivity.Connecting {
				// READY->IDLE, or CONNECTING->IDLE which pick_first documents as
				// "a successful connection that was lost before READY was seen".
				if prev == connectivity.Connecting {
					m.connIdleCount++
				}
				m.ready, m.passActive, m.sticky = nil, false, false
				m.othersMustBe = e.SC
			}
		}
	case fakecc.KDeliverHealth:
		if e.SC == m.ready {
			m.healthOK = e.Conn == connectivity.Ready
		}
	case fakecc.KUpdateState:
		s := e.State.ConnectivityState
		switch s {
		case connectivity.Ready:
			pr, err := e.State.Picker.Pick(balancer.PickInfo{})
			sc, _ := pr.SubConn.(*fakecc.SubConn)
			switch {
			case err != nil || sc == nil:
				m.bad("%v: READY reported with a picker returning (%v, %v)", e, pr.SubConn, err)
			case m.state[sc] != connectivity.Ready || m.shut[sc]:
				m.bad("%v: READY reported for %v whose latest state is %v (shutdown=%v)", e, sc, m.state[sc], m.shut[sc])
			case m.healthEnabled && !(sc == m.ready && m.healthOK):
				m.bad("%v: READY reported for %v with health listener enabled but last health state is not READY", e, sc)
			}
		case connectivity.Connecting, connectivity.Idle:
			if m.sticky {
				if s == connectivity.Connecting && m.deliveringTo != nil && m.deliveringSt == connectivity.Connecting && m.bornSticky[m.deliveringTo] {
					// known shape (see notes/C34.md): continue past it
					m.knownSigHits++
					m.sticky = false
				} else {
					m.bad("%v: %v reported after a completed failed pass and before any subchannel became READY (sticky TRANSIENT_FAILURE broken)", e, s)
				}
			}
		case connectivity.TransientFailure:
			if m.passActive && m.mayEndPass() {
				// the pass ends here; Connect() calls that follow re-connect
				// IDLE subchannels and are not part of the pass.
				m.passActive, m.sticky = false, true
				m.failedPasses++
			}
		}
		m.reported, m.haveReported = s, true
	}
}

func run(t *testing.T, p plan) vk.Result {
	var res vk.Result
	msg := vk.Bubble(t, func(t *testing.T) { res = runInBubble(p) })
	if msg != "" && res.Violation == "" {
		return vk.Bad("bubble did not drain cleanly: %s", msg)
	}
	return res
}

func runInBubble(p plan) (res vk.Result) {
	cc := fakecc.New("c34")
	cc.QueuedAfterShutdown = p.QueuedAfterShutdown
	pf := balancer.Get(pickfirst.Name).Build(cc, balancer.BuildOptions{})
	origFloat, origShuffle := pfinternal.RandFloat64, pfinternal.RandShuffle
	defer func() {
		pf.Close()
		synctest.Wait()
		pfinternal.RandFloat64, pfinternal.RandShuffle = origFloat, origShuffle
	}()
	m := &model{idx: map[string]int{}, state: map[*fakecc.SubConn]connectivity.State{}, shut: map[*fakecc.SubConn]bool{},
		liveByAddr: map[string]*fakecc.SubConn{}, bornSticky: map[*fakecc.SubConn]bool{}}
	cursor := 0
	maxAddrs, maxFams, shuffles, healthCases, keptReady, emptyUpdates, picksOK := 0, 0, 0, 0, 0, 0, 0

	for i, o := range p.Ops {
		desc := fmt.Sprintf("op %d %+v", i, o)
		m.othersMustBe, m.deliveringTo = nil, nil
		switch o.K {
		case opUpdate:
			var st resolver.State
			var flat []int
			if len(o.Groups) > 0 {
				k := 0
				for _, g := range o.Groups {
					var ep resolver.Endpoint
					for j := 0; j < g; j++ {
						ep.Addresses = append(ep.Addresses, resolver.Address{Addr: pool[o.Addrs[k]].addr})
						k++
					}
					st.Endpoints = append(st.Endpoints, ep)
				}
			} else {
				for _, a := range o.Addrs {
					st.Addresses = append(st.Addresses, resolver.Address{Addr: pool[a].addr})
				}
			}
			flat = o.Addrs
			if o.Health {
				st = pickfirst.EnableHealthListener(st)
			}
			ccs := balancer.ClientConnState{ResolverState: st}
			if o.Shuffle {
				c, err := pfParser().ParseConfig([]byte(`{"shuffleAddressList": true}`))
				if err != nil {
					return vk.Bad("%s: ParseConfig: %v", desc, err)
				}
				ccs.BalancerConfig = c
			}
			// model, part 1 (order-independent): membership, keep-READY, pass start.
			ref := refProcess(flat)
			if len(ref) == 0 {
				emptyUpdates++
				m.L, m.idx, m.passActive, m.sticky = nil, map[string]int{}, false, false
			} else {
				fams := map[int]bool{}
				for _, x := range ref {
					fams[pool[x].fam] = true
				}
				if len(ref) >= 3 && len(fams) >= 2 {
					maxAddrs, maxFams = max(maxAddrs, len(ref)), max(maxFams, len(fams))
				}
				m.L, m.idx = nil, map[string]int{}
				for _, x := range ref {
					m.idx[pool[x].addr] = -1
				}
				m.healthEnabled = o.Health
				if o.Health {
					healthCases++
				}
				keep := false
				if m.ready != nil && m.state[m.ready] == connectivity.Ready && !m.shut[m.ready] {
					_, keep = m.idx[m.ready.Addrs[0].Addr]
				}
				switch {
				case keep:
					keptReady++
				case m.haveReported && m.reported == connectivity.Idle:
					// pick_first stays IDLE on a resolver update; the next pass
					// starts with ExitIdle / a pick.
					m.passActive = false
				default:
					m.startPass()
				}
			}
			// plan-driven replacements for pick_first's random hooks.
			floatCalls, shuffleCalls := 0, 0
			pfinternal.RandFloat64 = func() float64 {
				i := floatCalls
				floatCalls++
				return float64(o.Keys[i%len(o.Keys)]*16+i%16) / 16000.0
			}
			fisherYates := func(n int, swap func(i, j int)) {
				for i := n - 1; i > 0; i-- {
					swap(i, o.Keys[i%len(o.Keys)]%(i+1))
				}
			}
			pfinternal.RandShuffle = func(n int, swap func(i, j int)) {
				shuffleCalls++
				fisherYates(n, swap)
			}
			err := pf.UpdateClientConnState(ccs)
			if (len(ref) == 0) != errors.Is(err, balancer.ErrBadResolverState) {
				return vk.Bad("%s: UpdateClientConnState returned %v for %d addresses", desc, err, len(ref))
			}
			// model, part 2: the expected order, applying the same permutation
			// the hooks handed to pick_first (endpoints are permuted as units).
			if len(ref) > 0 {
				groups := o.Groups
				if len(groups) == 0 {
					groups = make([]int, len(o.Addrs))
					for j := range groups {
						groups[j] = 1
					}
				}
				var units [][]int
				k := 0
				for _, g := range groups {
					units = append(units, o.Addrs[k:k+g])
					k += g
				}
				if o.Shuffle {
					shuffles++
					switch {
					case floatCalls > 0: // weighted shuffling: sort by descending key
						if floatCalls != len(units) || shuffleCalls != 0 {
							return vk.Bad("%s: harness: RandFloat64 called %d times for %d endpoints (RandShuffle %d)", desc, floatCalls, len(units), shuffleCalls)
						}
						keys := make([]int, len(units))
						for j := range units {
							keys[j] = o.Keys[j%len(o.Keys)]*16 + j%16
						}
						for x := 1; x < len(units); x++ { // insertion sort, keys are distinct
							for y := x; y > 0 && keys[y] > keys[y-1]; y-- {
								keys[y], keys[y-1] = keys[y-1], keys[y]
								units[y], units[y-1] = units[y-1], units[y]
							}
						}
					case shuffleCalls == 1:
						fisherYates(len(units), func(i, j int) { units[i], units[j] = units[j], units[i] })
					default:
						return vk.Bad("%s: shuffleAddressList set but no random hook was used (float %d shuffle %d)", desc, floatCalls, shuffleCalls)
					}
				} else if floatCalls+shuffleCalls != 0 {
					return vk.Bad("%s: address list shuffled although shuffleAddressList is off", desc)
				}
				var permuted []int
				for _, u := range units {
					permuted = append(permuted, u...)
				}
				for j, x := range refProcess(permuted) {
					m.L = append(m.L, pool[x].addr)
					m.idx[pool[x].addr] = j
				}
			}
		case opDeliver:
			d := connectivityDeliverable(cc)
			if len(d) == 0 {
				continue
			}
			// mostly drive live subchannels; SHUTDOWN confirmations of shut-down
			// ones are delivered now and then.
			if o.A%8 != 0 {
				var liveD []*fakecc.SubConn
				for _, sc := range d {
					if !sc.ShutdownCalled() {
						liveD = append(liveD, sc)
					}
				}
				if len(liveD) > 0 {
					d = liveD
				}
			}
			sc := d[o.A%len(d)]
			en := sc.Enabled()
			st := en[0]
			if len(en) > 1 && en[0] == connectivity.Ready { // CONNECTING: READY, TF, IDLE (+SHUTDOWN)
				st = []connectivity.State{connectivity.TransientFailure, connectivity.Ready, connectivity.Idle}[o.B]
			} else if len(en) > 1 && o.B == 2 {
				st = en[len(en)-1] // SHUTDOWN instead of a queued ordinary update
			}
			sc.Deliver(st, fmt.Errorf("dial %s: refused", sc.Addrs[0].Addr))
		case opAdvance:
			time.Sleep([]time.Duration{250 * time.Millisecond, 100 * time.Millisecond, time.Second}[o.A])
		case opHealth:
			var hs []*fakecc.SubConn
			for _, sc := range cc.SubConns() {
				if sc.HealthEnabled() {
					hs = append(hs, sc)
				}
			}
			if len(hs) == 0 {
				continue
			}
			hs[o.A%len(hs)].DeliverHealth([]connectivity.State{connectivity.Ready, connectivity.TransientFailure, connectivity.Connecting}[o.B], errors.New("unhealthy"))
		case opResolverError:
			pf.ResolverError(errors.New("resolver broke"))
		case opExitIdle:
			if m.haveReported && m.reported == connectivity.Idle {
				m.startPass()
			}
			pf.ExitIdle()
		case opPick:
			st, ok := cc.LastState()
			if !ok {
				continue
			}
			if m.reported == connectivity.Idle {
				m.startPass() // the idle picker triggers ExitIdle
			}
			pr, err := st.Picker.Pick(balancer.PickInfo{})
			if err == nil {
				sc, _ := pr.SubConn.(*fakecc.SubConn)
				if sc == nil || sc.State() != connectivity.Ready || sc.ShutdownCalled() {
					return vk.Bad("%s: Pick returned %v whose latest state is not READY", desc, pr.SubConn)
				}
				if m.healthEnabled && !(sc == m.ready && m.healthOK) {
					return vk.Bad("%s: Pick returned %v although its last health state is not READY", desc, sc)
				}
				picksOK++
			}
		}
		synctest.Wait()
		res.Steps++
		log := cc.Log()
		if trace {
			fmt.Printf("TRACE %s (sticky=%v pass=%v lastIdx=%d L=%v)\n", desc, m.sticky, m.passActive, m.lastIdx, m.L)
			for _, e := range log[cursor:] {
				fmt.Printf("TRACE     %v\n", e)
			}
		}
		for _, e := range log[cursor:] {
			m.walk(e, o.K == opAdvance)
		}
		cursor = len(log)
		if m.violation != "" {
			return vk.Bad("%s: %s", desc, m.violation)
		}
		if m.othersMustBe != nil && !m.shut[m.othersMustBe] {
			for _, sc := range cc.SubConns() {
				if sc != m.othersMustBe && !sc.ShutdownCalled() {
					return vk.Bad("%s: %v became READY (or READY/CONNECTING->IDLE) but %v was not shut down", desc, m.othersMustBe, sc)
				}
			}
		}
		if m.passActive && m.allFailed() {
			return vk.Bad("%s: every address of %v has failed in this pass but TRANSIENT_FAILURE was not reported (last reported %v)", desc, m.L, m.reported)
		}
	}
	res.NonTrivial = maxAddrs >= 3 && maxFams >= 2 && m.failedPasses >= 1
	cl := func(c bool, s string) {
		if c {
			res.Classes = append(res.Classes, s)
		}
	}
	cl(m.failedPasses >= 1, "failed_pass")
	cl(m.failedPasses >= 2, "failed_pass>=2")
	cl(m.readyCount > 0, "became_ready")
	cl(m.connIdleCount > 0, "connecting_to_idle")
	cl(m.skipsJustifed > 0, "reused_subconn_skipped")
	cl(m.outOfTurnTF > 0, "out_of_turn_tf")
	cl(m.timerConnects > 0, "happy_eyeballs_timer_connect")
	cl(shuffles > 0, "shuffle_with_known_permutation")
	cl(healthCases > 0, "health_listener")
	cl(keptReady > 0, "update_kept_ready_subconn")
	cl(emptyUpdates > 0, "empty_update")
	cl(picksOK > 0, "pick_returned_subconn")
	cl(maxFams >= 3, "three_families")
	cl(p.QueuedAfterShutdown > 0, "queued_after_shutdown")
	if m.knownSigHits > 0 {
		r := vk.Bad("sticky TRANSIENT_FAILURE left without READY: after a completed failed pass a resolver update added a new address and the CONNECTING update of its new subchannel made pick_first report CONNECTING (%d times)", m.knownSigHits)
		r.Sig = "c34.sticky_tf_left_by_new_subconn_connecting"
		r.Classes = append(res.Classes, "known_sticky_tf_shape")
		r.Steps = res.Steps
		return r
	}
	return res
}

func connectivityDeliverable(cc *fakecc.CC) []*fakecc.SubConn {
	var out []*fakecc.SubConn
	for _, s := range cc.SubConns() {
		if len(s.Enabled()) > 0 {
			out = append(out, s)
		}
	}
	return out
}

var trace = os.Getenv("VERIF_C34_TRACE") != ""

func pfParser() balancer.ConfigParser { return balancer.Get(pickfirst.Name).(balancer.ConfigParser) }

func TestVerifC34PickFirst(t *testing.T) {
	vk.Check(t, vk.Unit[plan]{
		ID: "C34", Name: "pickfirst",
		Rule: "op lists (<=30/<=250) over pick_first in a bubble: resolver updates with 0..7 addresses from a 9-address pool (IPv4, IPv4-mapped, IPv6, unparsable; duplicates; as Addresses or grouped into Endpoints; shuffle 25% with a plan-driven permutation injected through the package's random hooks; health listener in 25% of cases), subchannel events from the fake addrConn automaton (per-case failure bias 55/82/96%, CONNECTING->IDLE 4%, 0..2 updates queued after Shutdown), virtual-time advances (250ms/100ms/1s), health updates, ResolverError, ExitIdle, picks. non-trivial = some update had >=3 distinct addresses of >=2 families and >=1 pass failed completely",
		Gen:  genPlan, Run: run,
	})
}
