package verifc34_test

// C34: pick_first (balancer/pickfirst) driven through its registered builder
// (black-box; this virtual package lives below balancer/pickfirst only so that
// it may replace the random hooks of balancer/pickfirst/internal by
// plan-driven deterministic ones)
// with a recording ClientConn and the fake addrConn automaton (fakecc), one
// synctest bubble per case (happy-eyeballs timer = virtual time).
//
// The oracle is a set of history invariants evaluated over fakecc's totally
// ordered event log, with a small statement-level model (current address list
// in reference order, pass bookkeeping, sticky-TF flag, the READY subchannel):
//
//	S1 READY reported / SubConn picked  => that SubConn's latest state is READY,
//	   it was not shut down, and (health listener enabled) its last health
//	   state is READY
//	S2 after a completed failed pass: every report is TRANSIENT_FAILURE until a
//	   subchannel becomes READY (CONNECTING->IDLE counts as "was READY", see notes)
//	S3 when every address of the list has failed in the pass, TRANSIENT_FAILURE
//	   is reported in that very step
//	S5 a subchannel becoming READY => all other subchannels had Shutdown() called
//	S6 Connect() calls of a pass follow the reference order dedup+interleave of
//	   the resolver list, at most one per address; an address may be skipped
//	   only while its reused subchannel is CONNECTING or in TRANSIENT_FAILURE
//	S5b while a subchannel is READY (latest state READY, not shut down) no other
//	   SubConn is created or connected ("all other subchannels are shut down")
//	S7 a connection-delay timer whose function was already launched when
//	   pick_first cancelled it has no observable effect (see timerRig)
//
// The connection-delay timer: pick_first's seam internal.TimeAfterFunc is
// wrapped (timerRig) around the real time.AfterFunc of the bubble, so ordinary
// firings are exactly the fake clock's. In addition the plan can mark a call
// "the pending timer has fired, but its function only gets the balancer mutex
// after this call" (op.Fire == fireHeld): the harness advances the clock to
// the timer's deadline with the function parked, makes the call (a Stop() by
// pick_first during the call cannot stop a launched function - exactly
// time.Timer semantics) and then runs the parked function. The function's
// first action is b.mu.Lock(), so this is observationally identical to the
// timer goroutine being blocked on (or not yet scheduled to take) the mutex
// while another goroutine executes the call.

import (
	"errors"
	"fmt"
	"os"
	"sync"
	"testing"
	"testing/synctest"
	"time"

	"google.golang.org/grpc/balancer"
	"google.golang.org/grpc/balancer/pickfirst"
	pfinternal "google.golang.org/grpc/balancer/pickfirst/internal"
	"google.golang.org/grpc/connectivity"
	"google.golang.org/grpc/internal/verifkit/fakecc"
	"google.golang.org/grpc/internal/verifkit/vk"
	"google.golang.org/grpc/resolver"
	"pgregory.net/rapid"
)

// address pool: family known by construction (4, 6, 0 = unknown).
var pool = []struct {
	addr string
	fam  int
}{
	{"10.0.0.1:80", 4}, {"10.0.0.2:80", 4}, {"10.0.0.3:80", 4}, {"[::ffff:1.2.3.4]:80", 4},
	{"[2001:db8::1]:80", 6}, {"[2001:db8::2]:80", 6}, {"[2001:db8::3]:80", 6},
	{"backend-a", 0}, {"backend-b:http", 0},
}

const (
	opUpdate = iota
	opDeliver
	opAdvance
	opHealth
	opResolverError
	opExitIdle
	opPick
)

// op.Fire: what happens to the pending connection-delay timer (if any) just
// before the op's balancer call.
const (
	fireNone   = iota
	fireHeld   // clock advanced to the deadline; the launched function runs only after the call
	fireMiss   // clock advanced to 1ns before the deadline (the call may still stop the timer)
	fireBefore // clock advanced to the deadline and the function ran, then the call
)

type op struct {
	K       int   `json:"k"`
	Fire    int   `json:"fire,omitempty"`
	A       int   `json:"a"`
	B       int   `json:"b"`
	Addrs   []int `json:"addrs,omitempty"`  // pool indices (update)
	Groups  []int `json:"groups,omitempty"` // endpoint sizes; empty = use the Addresses field
	Shuffle bool  `json:"shuffle,omitempty"`
	Keys    []int `json:"keys,omitempty"` // shuffle keys (one per address), 0..999
	Health  bool  `json:"health,omitempty"`
}

type plan struct {
	QueuedAfterShutdown int  `json:"queued_after_shutdown"`
	Ops                 []op `json:"ops"`
	FireAtClose         bool `json:"fire_at_close,omitempty"` // pending timer is launched while Close() runs
}

// timerRig wraps pick_first's timer seam. A timer is a real time.AfterFunc of
// the bubble; when the harness set hold before the fake clock reached the
// deadline, the launched function is parked in held instead of being run, and
// the harness runs it after the next balancer call. The stop function handed
// to pick_first is time.Timer.Stop (it cannot stop a launched function); it
// only additionally records that it was called.
type timerRig struct {
	mu      sync.Mutex
	cur     *rigTimer   // most recently created timer
	held    []*rigTimer // launched, function parked
	created int
}

type rigTimer struct {
	f                 func()
	deadline          time.Time
	t                 *time.Timer
	stopped           bool // pick_first called the stop function
	fired             bool // the clock reached the deadline before Stop()
	hold              bool
	stoppedAfterFired bool // stop function called while the function was launched but had not run
}

func (r *timerRig) afterFunc(d time.Duration, f func()) func() {
	tm := &rigTimer{f: f, deadline: time.Now().Add(d)}
	r.mu.Lock()
	r.cur = tm
	r.created++
	r.mu.Unlock()
	tm.t = time.AfterFunc(d, func() {
		r.mu.Lock()
		tm.fired = true
		hold := tm.hold
		if hold {
			r.held = append(r.held, tm)
		}
		r.mu.Unlock()
		if !hold {
			f()
		}
	})
	return func() {
		r.mu.Lock()
		if tm.fired && tm.hold && !tm.stopped {
			tm.stoppedAfterFired = true
		}
		tm.stopped = true
		r.mu.Unlock()
		tm.t.Stop()
	}
}

// pending returns the timer that is armed (neither stopped nor fired), if any.
// pick_first has at most one: it stops the previous one before arming the next.
func (r *timerRig) pending() *rigTimer {
	r.mu.Lock()
	defer r.mu.Unlock()
	if r.cur != nil && !r.cur.stopped && !r.cur.fired {
		return r.cur
	}
	return nil
}

// hold advances the fake clock to tm's deadline with its function parked.
func (r *timerRig) hold(tm *rigTimer) {
	r.mu.Lock()
	tm.hold = true
	r.mu.Unlock()
	time.Sleep(time.Until(tm.deadline))
	synctest.Wait()
}

func (r *timerRig) takeHeld() []*rigTimer {
	r.mu.Lock()
	defer r.mu.Unlock()
	h := r.held
	r.held = nil
	return h
}

func (r *timerRig) cancelledWhileLaunched(tm *rigTimer) bool {
	r.mu.Lock()
	defer r.mu.Unlock()
	return tm.stoppedAfterFired
}

func (r *timerRig) numCreated() int {
	r.mu.Lock()
	defer r.mu.Unlock()
	return r.created
}

func genPlan(rt *rapid.T) plan {
	p := plan{QueuedAfterShutdown: fakecc.Weighted(rt, "queued", 60, 30, 10)}
	n := 3 + fakecc.Uniform(rt, "n", vk.Pick(28, 248))
	if n < 14 && fakecc.Uniform(rt, "short", 6) > 0 {
		n += 14
	}
	// per-case profile: how likely a connection attempt fails
	failBias := []int{55, 82, 96}[fakecc.Uniform(rt, "failbias", 3)]
	health := fakecc.Uniform(rt, "health", 4) == 0
	for i := 0; i < n; i++ {
		k := fakecc.Weighted(rt, "kind", 64, 6, 13, 5, 3, 4, 5)
		if i == 0 && fakecc.Uniform(rt, "first", 10) > 0 {
			k = 1
		}
		var o op
		switch k {
		case 0:
			o.K = opDeliver
			o.A = fakecc.Uniform(rt, "sc", 16)
			// event selector 0..99; for a CONNECTING subchannel: < failBias => TF,
			// < 96 => READY, else IDLE.
			o.B = fakecc.Uniform(rt, "ev", 100)
			if o.B < failBias {
				o.B = 0
			} else if o.B < 96 {
				o.B = 1
			} else {
				o.B = 2
			}
		case 1:
			o.K = opUpdate
			m := fakecc.Weighted(rt, "naddr", 4, 6, 10, 24, 22, 16, 10, 8) // 0..7 addresses
			sub := 3 + fakecc.Uniform(rt, "sub", len(pool)-2)
			off := fakecc.Uniform(rt, "off", len(pool))
			for j := 0; j < m; j++ {
				o.Addrs = append(o.Addrs, (off+fakecc.Uniform(rt, "addr", sub)*4)%len(pool))
			}
			if m > 0 && fakecc.Uniform(rt, "useEps", 3) > 0 {
				left := m
				for left > 0 {
					g := 1 + fakecc.Uniform(rt, "group", 3)
					if g > left {
						g = left
					}
					o.Groups = append(o.Groups, g)
					left -= g
				}
			}
			o.Shuffle = fakecc.Uniform(rt, "shuffle", 4) == 0
			if o.Shuffle {
				for j := 0; j < m; j++ {
					o.Keys = append(o.Keys, fakecc.Uniform(rt, "key", 1000))
				}
			}
			o.Health = health
		case 2:
			o.K = opAdvance
			o.A = fakecc.Weighted(rt, "dt", 70, 20, 10)
		case 3:
			o.K = opHealth
			o.A = fakecc.Uniform(rt, "sc", 4)
			o.B = fakecc.Weighted(rt, "hs", 60, 20, 20)
		case 4:
			o.K = opResolverError
		case 5:
			o.K = opExitIdle
		default:
			o.K = opPick
		}
		if o.K != opAdvance {
			o.Fire = fakecc.Weighted(rt, "fire", 70, 20, 5, 5)
		}
		p.Ops = append(p.Ops, o)
	}
	p.FireAtClose = fakecc.Uniform(rt, "fireAtClose", 8) == 0
	return p
}

// refProcess is the reference for deDup + interleave (RFC 8305 section 4 as
// documented on interleaveAddresses), on pool indices.
func refProcess(in []int) []int {
	var dd []int
	seen := map[int]bool{}
	for _, x := range in {
		if !seen[x] {
			seen[x] = true
			dd = append(dd, x)
		}
	}
	var order []int
	q := map[int][]int{}
	for _, x := range dd {
		f := pool[x].fam
		if _, ok := q[f]; !ok {
			order = append(order, f)
		}
		q[f] = append(q[f], x)
	}
	var out []int
	for len(out) < len(dd) {
		for _, f := range order {
			if len(q[f]) > 0 {
				out = append(out, q[f][0])
				q[f] = q[f][1:]
			}
		}
	}
	return out
}

type model struct {
	L   []string       // current list in reference order
	idx map[string]int // address -> position in L

	skipOK map[string]bool // address may be passed over in this pass (reused subchannel was CONNECTING / in TF)

	passActive bool
	lastIdx    int
	connected  map[string]bool
	failed     map[string]bool // TRANSIENT_FAILURE delivered during this pass (never cleared within the pass)
	failedLast map[string]bool // ... and no Connect() for the address since (no attempt outstanding)
	failedAt0  map[string]bool // reused subchannel was in TRANSIENT_FAILURE at pass start; cleared if it is re-attempted

	sticky        bool
	ready         *fakecc.SubConn
	healthEnabled bool
	healthOK      bool

	state      map[*fakecc.SubConn]connectivity.State
	shut       map[*fakecc.SubConn]bool
	liveByAddr map[string]*fakecc.SubConn
	bornSticky map[*fakecc.SubConn]bool

	reported     connectivity.State
	haveReported bool

	// per-op scratch
	othersMustBe  *fakecc.SubConn // READY/IDLE winner: all others must be shut down at end of op
	deliveringTo  *fakecc.SubConn
	deliveringSt  connectivity.State
	knownSigHits  int
	violation     string
	failedPasses  int
	readyCount    int
	connIdleCount int
	skipsJustifed int
	outOfTurnTF   int
	timerConnects int
}

func (m *model) startPass() {
	m.passActive = true
	m.lastIdx = -1
	m.connected = map[string]bool{}
	m.failed = map[string]bool{}
	m.failedLast = map[string]bool{}
	m.failedAt0 = map[string]bool{}
	m.skipOK = map[string]bool{}
	for a := range m.idx {
		if sc := m.liveByAddr[a]; sc != nil {
			if m.state[sc] == connectivity.TransientFailure {
				m.failedAt0[a] = true
			}
			if m.state[sc] == connectivity.TransientFailure || m.state[sc] == connectivity.Connecting {
				m.skipOK[a] = true
			}
		}
	}
}

// mayEndPass: every address has failed at least once in this pass (or was
// failing when the pass started and has not been re-attempted). pick_first MAY
// end the pass now: whether it waits for the outcome of a re-attempt of an
// address whose reused subchannel already failed during this pass depends on
// where its cursor stands, and the statement does not decide that.
func (m *model) mayEndPass() bool {
	if len(m.L) == 0 {
		return false
	}
	for _, a := range m.L {
		if m.liveByAddr[a] == nil || !(m.failed[a] || m.failedAt0[a]) {
			return false
		}
	}
	return true
}

// allFailed: every address has failed and no attempt is outstanding; pick_first
// MUST have reported TRANSIENT_FAILURE.
func (m *model) allFailed() bool {
	if len(m.L) == 0 {
		return false
	}
	for _, a := range m.L {
		if m.liveByAddr[a] == nil || !(m.failedLast[a] || m.failedAt0[a]) {
			return false
		}
	}
	return true
}

func (m *model) bad(format string, args ...any) {
	if m.violation == "" {
		m.violation = fmt.Sprintf(format, args...)
	}
}

// walk processes one fakecc log entry.
func (m *model) walk(e fakecc.Entry, inTimerOp bool) {
	switch e.Kind {
	case fakecc.KNewSubConn:
		if len(e.SC.Addrs) != 1 {
			m.bad("%v: SubConn created with %d addresses", e, len(e.SC.Addrs))
			return
		}
		a := e.SC.Addrs[0].Addr
		if r := m.ready; r != nil && !m.shut[r] && m.state[r] == connectivity.Ready {
			m.bad("%v: SubConn for %q created while %v is READY and not shut down (all other subchannels must stay shut down)", e, a, r)
		}
		if _, ok := m.idx[a]; !ok {
			m.bad("%v: SubConn created for %q which is not in the current address list %v", e, a, m.L)
		}
		if old := m.liveByAddr[a]; old != nil {
			m.bad("%v: second live SubConn for address %q (first %v)", e, a, old)
		}
		m.liveByAddr[a] = e.SC
		m.state[e.SC] = connectivity.Idle
		m.bornSticky[e.SC] = m.sticky
	case fakecc.KShutdown:
		m.shut[e.SC] = true
		a := e.SC.Addrs[0].Addr
		if m.liveByAddr[a] == e.SC {
			delete(m.liveByAddr, a)
		}
		if m.ready == e.SC {
			m.ready = nil
		}
	case fakecc.KConnect:
		if r := m.ready; r != nil && r != e.SC && !m.shut[r] && m.state[r] == connectivity.Ready && !m.shut[e.SC] {
			m.bad("%v: Connect() on %v while %v is READY and not shut down (all other subchannels must stay shut down)", e, e.SC, r)
		}
		if m.shut[e.SC] || !m.passActive {
			return
		}
		a := e.SC.Addrs[0].Addr
		i, ok := m.idx[a]
		if !ok {
			m.bad("%v: Connect on %q which is not in the address list", e, a)
			return
		}
		if m.connected[a] {
			m.bad("%v: second Connect() for address %q within one pass (list %v)", e, a, m.L)
			return
		}
		{
			if i <= m.lastIdx {
				m.bad("%v: Connect() for %q (position %d) after position %d was already attempted: out of order for list %v", e, a, i, m.lastIdx, m.L)
				return
			}
			for j := m.lastIdx + 1; j < i; j++ {
				// An address may be passed over only if it has a subchannel that was
				// CONNECTING or in TRANSIENT_FAILURE at some point of this pass
				// before being attempted (the moment of passing over is not
				// observable, so this is the weakest sound condition).
				if sc := m.liveByAddr[m.L[j]]; sc == nil || !m.skipOK[m.L[j]] {
					m.bad("%v: Connect() for %q (position %d) skipped %q (position %d) whose subchannel is %v/%v and was never CONNECTING/TRANSIENT_FAILURE in this pass; list %v", e, a, i, m.L[j], j, sc, m.state[sc], m.L)
					return
				}
				m.skipsJustifed++
			}
			m.lastIdx = i
		}
		m.connected[a] = true
		// A failure observed during the pass stays (pick_first does not wait
		// for the outcome of a re-attempt of an address that already failed
		// in this pass); only the "was failing when the pass started" mark of
		// a reused subchannel is void once it is re-attempted.
		m.failedAt0[a] = false
		m.failedLast[a] = false
		if inTimerOp {
			m.timerConnects++
		}
	case fakecc.KDeliver:
		prev := m.state[e.SC]
		m.state[e.SC] = e.Conn
		m.deliveringTo, m.deliveringSt = e.SC, e.Conn
		if m.shut[e.SC] {
			return // update queued before Shutdown(): must be ignored by the policy
		}
		a := e.SC.Addrs[0].Addr
		switch e.Conn {
		case connectivity.TransientFailure:
			if m.passActive {
				if _, ok := m.idx[a]; ok && m.liveByAddr[a] == e.SC {
					m.failed[a] = true
					m.failedLast[a] = true
					m.skipOK[a] = true
					if m.idx[a] != m.lastIdx {
						m.outOfTurnTF++
					}
				}
			}
		case connectivity.Connecting:
			if m.passActive && m.liveByAddr[a] == e.SC && !m.connected[a] {
				m.skipOK[a] = true
			}
		case connectivity.Ready:
			m.ready, m.passActive, m.sticky, m.healthOK = e.SC, false, false, false
			m.othersMustBe = e.SC
			m.readyCount++
		case connectivity.Idle:
			if prev == connectivity.Ready || prev == connectivity.Connecting {
				// READY->IDLE, or CONNECTING->IDLE which pick_first documents as
				// "a successful connection that was lost before READY was seen".
				if prev == connectivity.Connecting {
					m.connIdleCount++
				}
				m.ready, m.passActive, m.sticky = nil, false, false
				m.othersMustBe = e.SC
			}
		}
	case fakecc.KDeliverHealth:
		if e.SC == m.ready {
			m.healthOK = e.Conn == connectivity.Ready
		}
	case fakecc.KUpdateState:
		s := e.State.ConnectivityState
		switch s {
		case connectivity.Ready:
			pr, err := e.State.Picker.Pick(balancer.PickInfo{})
			sc, _ := pr.SubConn.(*fakecc.SubConn)
			switch {
			case err != nil || sc == nil:
				m.bad("%v: READY reported with a picker returning (%v, %v)", e, pr.SubConn, err)
			case m.state[sc] != connectivity.Ready || m.shut[sc]:
				m.bad("%v: READY reported for %v whose latest state is %v (shutdown=%v)", e, sc, m.state[sc], m.shut[sc])
			case m.healthEnabled && !(sc == m.ready && m.healthOK):
				m.bad("%v: READY reported for %v with health listener enabled but last health state is not READY", e, sc)
			}
		case connectivity.Connecting, connectivity.Idle:
			if m.sticky {
				if s == connectivity.Connecting && m.deliveringTo != nil && m.deliveringSt == connectivity.Connecting && m.bornSticky[m.deliveringTo] {
					// known shape (see notes/C34.md): continue past it
					m.knownSigHits++
					m.sticky = false
				} else {
					m.bad("%v: %v reported after a completed failed pass and before any subchannel became READY (sticky TRANSIENT_FAILURE broken)", e, s)
				}
			}
		case connectivity.TransientFailure:
			if m.passActive && m.mayEndPass() {
				// the pass ends here; Connect() calls that follow re-connect
				// IDLE subchannels and are not part of the pass.
				m.passActive, m.sticky = false, true
				m.failedPasses++
			}
		}
		m.reported, m.haveReported = s, true
	}
}

func run(t *testing.T, p plan) vk.Result {
	var res vk.Result
	msg := vk.Bubble(t, func(t *testing.T) { res = runInBubble(p) })
	if msg != "" && res.Violation == "" {
		return vk.Bad("bubble did not drain cleanly: %s", msg)
	}
	return res
}

func runInBubble(p plan) (res vk.Result) {
	cc := fakecc.New("c34")
	cc.QueuedAfterShutdown = p.QueuedAfterShutdown
	pf := balancer.Get(pickfirst.Name).Build(cc, balancer.BuildOptions{})
	origFloat, origShuffle, origTimer := pfinternal.RandFloat64, pfinternal.RandShuffle, pfinternal.TimeAfterFunc
	rig := &timerRig{}
	pfinternal.TimeAfterFunc = rig.afterFunc
	defer func() {
		if tm := rig.pending(); tm != nil && p.FireAtClose {
			rig.hold(tm)
		}
		pf.Close()
		for _, tm := range rig.takeHeld() {
			tm.f() // launched before Close() got the mutex; only "does not panic / leak" is asserted
		}
		synctest.Wait()
		pfinternal.RandFloat64, pfinternal.RandShuffle, pfinternal.TimeAfterFunc = origFloat, origShuffle, origTimer
	}()
	m := &model{idx: map[string]int{}, state: map[*fakecc.SubConn]connectivity.State{}, shut: map[*fakecc.SubConn]bool{},
		liveByAddr: map[string]*fakecc.SubConn{}, bornSticky: map[*fakecc.SubConn]bool{}}
	cursor := 0
	maxAddrs, maxFams, shuffles, healthCases, keptReady, emptyUpdates, picksOK := 0, 0, 0, 0, 0, 0, 0
	heldCalls, heldCancelled, heldEffective, nearMiss, firedBefore := 0, 0, 0, 0, 0
	cancelKinds := map[string]bool{}

	for i, o := range p.Ops {
		desc := fmt.Sprintf("op %d %+v", i, o)
		m.othersMustBe, m.deliveringTo = nil, nil
		// the pending connection-delay timer relative to this op's call
		if tm := rig.pending(); tm != nil && o.K != opAdvance {
			switch o.Fire {
			case fireHeld:
				rig.hold(tm)
				heldCalls++
			case fireMiss:
				time.Sleep(time.Until(tm.deadline) - time.Nanosecond)
				synctest.Wait()
				nearMiss++
			case fireBefore:
				time.Sleep(time.Until(tm.deadline))
				synctest.Wait()
				firedBefore++
				// the timer's effects precede the op (and the op's model changes)
				log := cc.Log()
				if trace {
					fmt.Printf("TRACE op %d: timer runs just before the call\n", i)
				}
				for _, e := range log[cursor:] {
					if trace {
						fmt.Printf("TRACE     %v\n", e)
					}
					m.walk(e, true)
				}
				cursor = len(log)
				if m.violation != "" {
					return vk.Bad("%s (timer fired just before the call): %s", desc, m.violation)
				}
			}
		}
		cancelKind := "other"
	opSwitch:
		switch o.K {
		case opUpdate:
			var st resolver.State
			var flat []int
			if len(o.Groups) > 0 {
				k := 0
				for _, g := range o.Groups {
					var ep resolver.Endpoint
					for j := 0; j < g; j++ {
						ep.Addresses = append(ep.Addresses, resolver.Address{Addr: pool[o.Addrs[k]].addr})
						k++
					}
					st.Endpoints = append(st.Endpoints, ep)
				}
			} else {
				for _, a := range o.Addrs {
					st.Addresses = append(st.Addresses, resolver.Address{Addr: pool[a].addr})
				}
			}
			flat = o.Addrs
			if o.Health {
				st = pickfirst.EnableHealthListener(st)
			}
			ccs := balancer.ClientConnState{ResolverState: st}
			if o.Shuffle {
				c, err := pfParser().ParseConfig([]byte(`{"shuffleAddressList": true}`))
				if err != nil {
					return vk.Bad("%s: ParseConfig: %v", desc, err)
				}
				ccs.BalancerConfig = c
			}
			// model, part 1 (order-independent): membership, keep-READY, pass start.
			ref := refProcess(flat)
			if len(ref) == 0 {
				emptyUpdates++
				m.L, m.idx, m.passActive, m.sticky = nil, map[string]int{}, false, false
			} else {
				fams := map[int]bool{}
				for _, x := range ref {
					fams[pool[x].fam] = true
				}
				if len(ref) >= 3 && len(fams) >= 2 {
					maxAddrs, maxFams = max(maxAddrs, len(ref)), max(maxFams, len(fams))
				}
				m.L, m.idx = nil, map[string]int{}
				for _, x := range ref {
					m.idx[pool[x].addr] = -1
				}
				m.healthEnabled = o.Health
				if o.Health {
					healthCases++
				}
				keep := false
				if m.ready != nil && m.state[m.ready] == connectivity.Ready && !m.shut[m.ready] {
					_, keep = m.idx[m.ready.Addrs[0].Addr]
				}
				switch {
				case keep:
					keptReady++
				case m.haveReported && m.reported == connectivity.Idle:
					// pick_first stays IDLE on a resolver update; the next pass
					// starts with ExitIdle / a pick.
					m.passActive = false
				default:
					m.startPass()
				}
			}
			// plan-driven replacements for pick_first's random hooks.
			floatCalls, shuffleCalls := 0, 0
			pfinternal.RandFloat64 = func() float64 {
				i := floatCalls
				floatCalls++
				return float64(o.Keys[i%len(o.Keys)]*16+i%16) / 16000.0
			}
			fisherYates := func(n int, swap func(i, j int)) {
				for i := n - 1; i > 0; i-- {
					swap(i, o.Keys[i%len(o.Keys)]%(i+1))
				}
			}
			pfinternal.RandShuffle = func(n int, swap func(i, j int)) {
				shuffleCalls++
				fisherYates(n, swap)
			}
			cancelKind = "resolver_update"
			err := pf.UpdateClientConnState(ccs)
			if (len(ref) == 0) != errors.Is(err, balancer.ErrBadResolverState) {
				return vk.Bad("%s: UpdateClientConnState returned %v for %d addresses", desc, err, len(ref))
			}
			// model, part 2: the expected order, applying the same permutation
			// the hooks handed to pick_first (endpoints are permuted as units).
			if len(ref) > 0 {
				groups := o.Groups
				if len(groups) == 0 {
					groups = make([]int, len(o.Addrs))
					for j := range groups {
						groups[j] = 1
					}
				}
				var units [][]int
				k := 0
				for _, g := range groups {
					units = append(units, o.Addrs[k:k+g])
					k += g
				}
				if o.Shuffle {
					shuffles++
					switch {
					case floatCalls > 0: // weighted shuffling: sort by descending key
						if floatCalls != len(units) || shuffleCalls != 0 {
							return vk.Bad("%s: harness: RandFloat64 called %d times for %d endpoints (RandShuffle %d)", desc, floatCalls, len(units), shuffleCalls)
						}
						keys := make([]int, len(units))
						for j := range units {
							keys[j] = o.Keys[j%len(o.Keys)]*16 + j%16
						}
						for x := 1; x < len(units); x++ { // insertion sort, keys are distinct
							for y := x; y > 0 && keys[y] > keys[y-1]; y-- {
								keys[y], keys[y-1] = keys[y-1], keys[y]
								units[y], units[y-1] = units[y-1], units[y]
							}
						}
					case shuffleCalls == 1:
						fisherYates(len(units), func(i, j int) { units[i], units[j] = units[j], units[i] })
					default:
						return vk.Bad("%s: shuffleAddressList set but no random hook was used (float %d shuffle %d)", desc, floatCalls, shuffleCalls)
					}
				} else if floatCalls+shuffleCalls != 0 {
					return vk.Bad("%s: address list shuffled although shuffleAddressList is off", desc)
				}
				var permuted []int
				for _, u := range units {
					permuted = append(permuted, u...)
				}
				for j, x := range refProcess(permuted) {
					m.L = append(m.L, pool[x].addr)
					m.idx[pool[x].addr] = j
				}
			}
		case opDeliver:
			d := connectivityDeliverable(cc)
			if len(d) == 0 {
				break opSwitch
			}
			// mostly drive live subchannels; SHUTDOWN confirmations of shut-down
			// ones are delivered now and then.
			if o.A%8 != 0 {
				var liveD []*fakecc.SubConn
				for _, sc := range d {
					if !sc.ShutdownCalled() {
						liveD = append(liveD, sc)
					}
				}
				if len(liveD) > 0 {
					d = liveD
				}
			}
			sc := d[o.A%len(d)]
			en := sc.Enabled()
			st := en[0]
			if len(en) > 1 && en[0] == connectivity.Ready { // CONNECTING: READY, TF, IDLE (+SHUTDOWN)
				st = []connectivity.State{connectivity.TransientFailure, connectivity.Ready, connectivity.Idle}[o.B]
			} else if len(en) > 1 && o.B == 2 {
				st = en[len(en)-1] // SHUTDOWN instead of a queued ordinary update
			}
			cancelKind = "deliver_" + st.String()
			sc.Deliver(st, fmt.Errorf("dial %s: refused", sc.Addrs[0].Addr))
		case opAdvance:
			time.Sleep([]time.Duration{250 * time.Millisecond, 100 * time.Millisecond, time.Second}[o.A])
		case opHealth:
			var hs []*fakecc.SubConn
			for _, sc := range cc.SubConns() {
				if sc.HealthEnabled() {
					hs = append(hs, sc)
				}
			}
			if len(hs) == 0 {
				break opSwitch
			}
			hs[o.A%len(hs)].DeliverHealth([]connectivity.State{connectivity.Ready, connectivity.TransientFailure, connectivity.Connecting}[o.B], errors.New("unhealthy"))
		case opResolverError:
			pf.ResolverError(errors.New("resolver broke"))
		case opExitIdle:
			if m.haveReported && m.reported == connectivity.Idle {
				m.startPass()
			}
			pf.ExitIdle()
		case opPick:
			st, ok := cc.LastState()
			if !ok {
				break opSwitch
			}
			if m.reported == connectivity.Idle {
				m.startPass() // the idle picker triggers ExitIdle
			}
			pr, err := st.Picker.Pick(balancer.PickInfo{})
			if err == nil {
				sc, _ := pr.SubConn.(*fakecc.SubConn)
				if sc == nil || sc.State() != connectivity.Ready || sc.ShutdownCalled() {
					return vk.Bad("%s: Pick returned %v whose latest state is not READY", desc, pr.SubConn)
				}
				if m.healthEnabled && !(sc == m.ready && m.healthOK) {
					return vk.Bad("%s: Pick returned %v although its last health state is not READY", desc, sc)
				}
				picksOK++
			}
		}
		synctest.Wait()
		// The call is over: the parked timer function (launched before the
		// call took the balancer mutex) gets the mutex now.
		heldFrom := cc.Seq()
		s7 := ""
		for _, tm := range rig.takeHeld() {
			seq0, timers0 := cc.Seq(), rig.numCreated()
			cancelled := rig.cancelledWhileLaunched(tm) // before f: f itself calls the (once) stop function when it re-arms
			tm.f()
			synctest.Wait()
			if cancelled {
				heldCancelled++
				cancelKinds[cancelKind] = true
				// S7: pick_first cancelled this timer during the call. Had Stop()
				// won the race the function would never have run; a launched
				// function must therefore be a no-op.
				if seq1, timers1 := cc.Seq(), rig.numCreated(); (seq1 != seq0 || timers1 != timers0) && s7 == "" && !noS7 {
					s7 = fmt.Sprintf("the connection-delay timer was launched before and cancelled during this call, but its function still acted when it got the mutex: %v (new timers: %d)", cc.Log()[seq0:seq1], timers1-timers0)
				}
			} else if cc.Seq() != seq0 {
				heldEffective++
			}
		}
		res.Steps++
		log := cc.Log()
		if trace {
			fmt.Printf("TRACE %s (sticky=%v pass=%v lastIdx=%d L=%v)\n", desc, m.sticky, m.passActive, m.lastIdx, m.L)
			for j, e := range log[cursor:] {
				if cursor+j == heldFrom && heldFrom < len(log) {
					fmt.Printf("TRACE   -- parked timer function runs --\n")
				}
				fmt.Printf("TRACE     %v\n", e)
			}
		}
		for j, e := range log[cursor:] {
			m.walk(e, o.K == opAdvance || cursor+j >= heldFrom)
		}
		cursor = len(log)
		if m.violation != "" {
			return vk.Bad("%s: %s", desc, m.violation)
		}
		if m.othersMustBe != nil && !m.shut[m.othersMustBe] {
			for _, sc := range cc.SubConns() {
				if sc != m.othersMustBe && !sc.ShutdownCalled() {
					return vk.Bad("%s: %v became READY (or READY/CONNECTING->IDLE) but %v was not shut down", desc, m.othersMustBe, sc)
				}
			}
		}
		if m.passActive && m.allFailed() {
			return vk.Bad("%s: every address of %v has failed in this pass but TRANSIENT_FAILURE was not reported (last reported %v)", desc, m.L, m.reported)
		}
		if s7 != "" { // reported only when no statement-level invariant fired in this step
			return vk.Bad("%s: %s", desc, s7)
		}
	}
	res.NonTrivial = maxAddrs >= 3 && maxFams >= 2 && m.failedPasses >= 1 || heldCancelled > 0
	cl := func(c bool, s string) {
		if c {
			res.Classes = append(res.Classes, s)
		}
	}
	cl(m.failedPasses >= 1, "failed_pass")
	cl(m.failedPasses >= 2, "failed_pass>=2")
	cl(m.readyCount > 0, "became_ready")
	cl(m.connIdleCount > 0, "connecting_to_idle")
	cl(m.skipsJustifed > 0, "reused_subconn_skipped")
	cl(m.outOfTurnTF > 0, "out_of_turn_tf")
	cl(m.timerConnects > 0, "happy_eyeballs_timer_connect")
	cl(heldCalls > 0, "timer_fired_during_call")
	cl(heldCancelled > 0, "timer_fired_during_cancelling_call")
	for _, k := range []string{"deliver_READY", "deliver_TRANSIENT_FAILURE", "deliver_IDLE", "resolver_update", "other"} {
		cl(cancelKinds[k], "timer_fired_during_cancelling_call:"+k)
	}
	cl(heldEffective > 0, "timer_fired_during_call_then_acted")
	cl(nearMiss > 0, "call_1ns_before_timer")
	cl(firedBefore > 0, "timer_ran_just_before_call")
	cl(shuffles > 0, "shuffle_with_known_permutation")
	cl(healthCases > 0, "health_listener")
	cl(keptReady > 0, "update_kept_ready_subconn")
	cl(emptyUpdates > 0, "empty_update")
	cl(picksOK > 0, "pick_returned_subconn")
	cl(maxFams >= 3, "three_families")
	cl(p.QueuedAfterShutdown > 0, "queued_after_shutdown")
	if m.knownSigHits > 0 {
		r := vk.Bad("sticky TRANSIENT_FAILURE left without READY: after a completed failed pass a resolver update added a new address and the CONNECTING update of its new subchannel made pick_first report CONNECTING (%d times)", m.knownSigHits)
		r.Sig = "c34.sticky_tf_left_by_new_subconn_connecting"
		r.Classes = append(res.Classes, "known_sticky_tf_shape")
		r.Steps = res.Steps
		return r
	}
	return res
}

func connectivityDeliverable(cc *fakecc.CC) []*fakecc.SubConn {
	var out []*fakecc.SubConn
	for _, s := range cc.SubConns() {
		if len(s.Enabled()) > 0 {
			out = append(out, s)
		}
	}
	return out
}

var trace = os.Getenv("VERIF_C34_TRACE") != ""

// noS7 switches invariant S7 off (sensitivity experiments only: shows what the
// statement-level invariants catch on their own).
var noS7 = os.Getenv("VERIF_C34_NO_S7") != ""

func pfParser() balancer.ConfigParser { return balancer.Get(pickfirst.Name).(balancer.ConfigParser) }

func TestVerifC34PickFirst(t *testing.T) {
	vk.Check(t, vk.Unit[plan]{
		ID: "C34", Name: "pickfirst",
		Rule: "op lists (<=30/<=250) over pick_first in a bubble: resolver updates with 0..7 addresses from a 9-address pool (IPv4, IPv4-mapped, IPv6, unparsable; duplicates; as Addresses or grouped into Endpoints; shuffle 25% with a plan-driven permutation injected through the package's random hooks; health listener in 25% of cases), subchannel events from the fake addrConn automaton (per-case failure bias 55/82/96%, CONNECTING->IDLE 4%, 0..2 updates queued after Shutdown), virtual-time advances (250ms/100ms/1s), health updates, ResolverError, ExitIdle, picks. The connection-delay timer runs on the bubble clock through pick_first's TimeAfterFunc seam; 30% of the calls carry a timer relation that applies when a timer is armed: 20% the clock reaches the deadline with the timer function launched but parked until the call has returned (= timer goroutine waiting for the balancer mutex; Stop() during the call cannot stop it), 5% the call happens 1ns before the deadline, 5% the timer runs just before the call; Close() with a launched timer in 1/8 of the cases. non-trivial = (some update had >=3 distinct addresses of >=2 families and >=1 pass failed completely) or a launched timer was cancelled by the call it was parked behind (class timer_fired_during_cancelling_call)",
		Gen:  genPlan, Run: run,
	})
}
