package weightedroundrobin

// C36: the WRR scheduler. For a generated endpoint weight vector the real
// picker.newScheduler is built and driven through its sequence counter:
//   - every nextIndex consumes at most n sequence numbers,
//   - over a window of 65535*n consecutive sequence numbers backend i is chosen
//     exactly scaledWeight_i times (closed form, DESIGN §6),
//   - scaled weights are 65535*w_i/max (mean of the non-zero ones for zero
//     weights) up to rounding, checked against exact rational arithmetic,
//   - round robin is used iff n == 1, fewer than two non-zero weights, or all
//     scaled weights equal.
// Second unit: endpointWeight.OnLoadReport/weight with an explicit clock versus
// a model of formula / first report / blackout / expiration.

import (
	"fmt"
	"math"
	"math/big"
	"testing"
	"time"

	v3orcapb "github.com/cncf/xds/go/xds/data/orca/v3"
	"google.golang.org/grpc/balancer/weightedroundrobin/internal"
	estats "google.golang.org/grpc/experimental/stats"
	internalgrpclog "google.golang.org/grpc/internal/grpclog"
	iserviceconfig "google.golang.org/grpc/internal/serviceconfig"
	"google.golang.org/grpc/internal/verifkit/vk"
	"pgregory.net/rapid"
)

type vfC36SchedPlan struct {
	Weights []float64 `json:"weights"`
	// Start is the value of the sequence counter before the first pick.
	Start uint32 `json:"start"`
}

var vfC36Base = time.Unix(1_700_000_000, 0)

func vfC36GenWeights(rt *rapid.T) []float64 {
	n := rapid.SampledFrom([]int{3, 2, 4, 5, 2, 3, 6, 8, 11, 16, 1, 16, 24}).Draw(rt, "n")
	w := make([]float64, n)
	shape := rapid.SampledFrom([]int{3, 0, 2, 4, 5, 6, 7, 8, 2, 1}).Draw(rt, "shape")
	scale := math.Pow(10, float64(rapid.IntRange(-6, 6).Draw(rt, "scale_exp")))
	for i := range w {
		switch shape {
		case 0: // small integers, some zero
			w[i] = float64(rapid.IntRange(0, 5).Draw(rt, "w"))
		case 1: // all equal
			w[i] = 1
		case 2: // almost equal: relative differences around the 1/65535 rounding step
			w[i] = 1 + float64(rapid.IntRange(-2, 2).Draw(rt, "d"))*math.Pow(2, -float64(rapid.IntRange(15, 19).Draw(rt, "e")))
		case 3: // ratios up to 10^6
			w[i] = math.Pow(10, rapid.Float64Range(0, 6).Draw(rt, "lg"))
		case 4: // arbitrary positive
			w[i] = rapid.Float64Range(0.001, 1000).Draw(rt, "w")
		case 5: // mostly zero
			if rapid.IntRange(0, 3).Draw(rt, "nz") == 0 {
				w[i] = rapid.Float64Range(0.5, 50).Draw(rt, "w")
			}
		case 6: // extreme ratios: tiny ones scale to 0 or 1
			w[i] = math.Pow(10, rapid.Float64Range(-9, 3).Draw(rt, "lg"))
		case 7: // integers k/65535 of the max: exact scaled values, incl. x.5 ties
			w[i] = float64(rapid.IntRange(1, 2*65535).Draw(rt, "k")) / 2
		default: // one heavy, rest light with zeros
			w[i] = float64(rapid.IntRange(0, 2).Draw(rt, "w"))
		}
		w[i] *= scale
	}
	if shape == 8 {
		w[rapid.IntRange(0, n-1).Draw(rt, "heavy")] = scale * float64(rapid.IntRange(2, 70000).Draw(rt, "hw"))
	}
	if shape == 7 {
		w[rapid.IntRange(0, n-1).Draw(rt, "maxat")] = scale * 65535
	}
	return w
}

func vfC36GenSched(rt *rapid.T) vfC36SchedPlan {
	p := vfC36SchedPlan{Weights: vfC36GenWeights(rt)}
	window := uint32(65535 * len(p.Weights))
	hi := math.MaxUint32 - window - uint32(len(p.Weights)) - 1
	switch rapid.IntRange(0, 3).Draw(rt, "startkind") {
	case 0:
		p.Start = rapid.Uint32Range(0, 70000).Draw(rt, "start")
	case 1: // as late as possible without straddling the 2^32 wrap (§5 reading)
		p.Start = hi - rapid.Uint32Range(0, 100).Draw(rt, "back")
	default:
		p.Start = rapid.Uint32Range(0, hi).Draw(rt, "start")
	}
	return p
}

type vfC36NoopRecorder struct {
	estats.UnimplementedMetricsRecorder
}

func vfC36NewEndpointWeight(cfg *lbConfig) *endpointWeight {
	return &endpointWeight{
		logger:          internalgrpclog.NewPrefixLogger(logger, "[vfC36] "),
		metricsRecorder: vfC36NoopRecorder{},
		cfg:             cfg,
	}
}

func vfC36Rat(f float64) *big.Rat { return new(big.Rat).SetFloat64(f) }

// vfC36Within reports |got - exact| <= 0.5 + 1e-6.
func vfC36Within(got uint16, exact *big.Rat) bool {
	d := new(big.Rat).Sub(new(big.Rat).SetInt64(int64(got)), exact)
	d.Abs(d)
	return d.Cmp(big.NewRat(500001, 1000000)) <= 0
}

func vfC36RunSched(_ *testing.T, p vfC36SchedPlan) vk.Result {
	w := p.Weights
	n := len(w)
	if n == 0 || n > 64 {
		return vk.Result{Discard: true}
	}
	window := uint64(65535) * uint64(n)
	if uint64(p.Start)+window+uint64(n)+1 > math.MaxUint32 {
		return vk.Result{Discard: true} // window would straddle the uint32 wrap
	}
	nonZero := 0
	maxW := 0.0
	for _, x := range w {
		if !(x >= 0) || math.IsInf(x, 0) {
			return vk.Result{Discard: true}
		}
		if x > 0 {
			nonZero++
		}
		if x > maxW {
			maxW = x
		}
	}

	savedNow := internal.TimeNow
	defer func() { internal.TimeNow = savedNow }()
	internal.TimeNow = func() time.Time { return vfC36Base }

	cfg := &lbConfig{BlackoutPeriod: 0, WeightExpirationPeriod: iserviceconfig.Duration(time.Hour), ErrorUtilizationPenalty: 1}
	pk := &picker{cfg: cfg, metricsRecorder: vfC36NoopRecorder{}}
	for _, x := range w {
		ew := vfC36NewEndpointWeight(cfg)
		if x > 0 {
			// a usable report received "now": weight() returns weightVal
			ew.weightVal = x
			ew.lastUpdated = vfC36Base
			ew.nonEmptySince = vfC36Base
		}
		pk.weightedPickers = append(pk.weightedPickers, pickerWeightedEndpoint{weightedEndpoint: ew})
	}
	got := pk.endpointWeights(false)
	for i := range w {
		if got[i] != w[i] {
			return vk.Bad("harness: endpoint weight %d reads %v, want %v", i, got[i], w[i])
		}
	}
	pk.idx.Store(p.Start)
	s := pk.newScheduler(false)
	if s == nil {
		return vk.Bad("newScheduler returned nil for %d endpoints", n)
	}

	res := vk.Result{Classes: []string{fmt.Sprintf("n_%02d", n)}}
	if nonZero < n && nonZero >= 2 {
		res.Classes = append(res.Classes, "has_zero_weight")
	}

	// exact scaled values
	var exact []*big.Rat
	if nonZero >= 1 {
		sum := new(big.Rat)
		for _, x := range w {
			sum.Add(sum, vfC36Rat(x))
		}
		mx := vfC36Rat(maxW)
		k := big.NewRat(65535, 1)
		mean := new(big.Rat).Quo(sum, big.NewRat(int64(nonZero), 1))
		mean.Mul(mean, k).Quo(mean, mx)
		for _, x := range w {
			if x == 0 {
				exact = append(exact, mean)
			} else {
				e := vfC36Rat(x)
				e.Mul(e, k).Quo(e, mx)
				exact = append(exact, e)
			}
		}
	}
	// Is RR required / forbidden by the statement?
	mustRR := n == 1 || nonZero < 2
	mustEDF := false
	if !mustRR {
		allSame := true
		for _, x := range w {
			if x != 0 && x != maxW {
				allSame = false
			}
		}
		if allSame {
			mustRR = true // all usable weights equal
		} else {
			lo, hi := exact[0], exact[0]
			for _, e := range exact {
				if e.Cmp(lo) < 0 {
					lo = e
				}
				if e.Cmp(hi) > 0 {
					hi = e
				}
			}
			// scaled values more than one rounding step apart cannot round equal
			if new(big.Rat).Sub(hi, lo).Cmp(big.NewRat(1000001, 1000000)) > 0 {
				mustEDF = true
			}
		}
	}

	seq := func() uint64 { return uint64(pk.idx.Load()) }

	switch sc := s.(type) {
	case *rrScheduler:
		res.Classes = append(res.Classes, "rr_fallback")
		if mustEDF {
			return vk.Bad("weights %v: round robin chosen although scaled weights differ (exact %v)", w, vfC36Fmt(exact))
		}
		for i := 0; i < 3*n+1; i++ {
			before := seq()
			got := sc.nextIndex()
			after := seq()
			if after-before != 1 {
				return vk.Bad("weights %v: round-robin pick consumed %d sequence numbers", w, after-before)
			}
			if got != int(after%uint64(n)) {
				return vk.Bad("weights %v: round-robin pick at sequence %d returned %d, want %d", w, after, got, after%uint64(n))
			}
		}
		if !mustRR {
			res.Classes = append(res.Classes, "rr_by_rounding")
		}
		return res
	case *edfScheduler:
		res.Classes = append(res.Classes, "edf")
		res.NonTrivial = true
		if mustRR {
			return vk.Bad("weights %v: EDF scheduler %v chosen although round robin is required (n=%d, non-zero=%d)", w, sc.weights, n, nonZero)
		}
		if len(sc.weights) != n {
			return vk.Bad("weights %v: scheduler has %d weights", w, len(sc.weights))
		}
		same := true
		ratio := false
		for i := range sc.weights {
			if !vfC36Within(sc.weights[i], exact[i]) {
				return vk.Bad("weights %v: scaled weight[%d] = %d, exact 65535*w/max = %s", w, i, sc.weights[i], exact[i].FloatString(6))
			}
			if sc.weights[i] != sc.weights[0] {
				same = false
			}
			if sc.weights[i] == 0 {
				res.Classes = append(res.Classes, "scaled_to_zero")
			}
			if w[i] > 0 && maxW/w[i] >= 1000 {
				ratio = true
			}
		}
		if ratio {
			res.Classes = append(res.Classes, "ratio>=1000")
		}
		if same {
			return vk.Bad("weights %v: EDF scheduler with all-equal scaled weights %v", w, sc.weights)
		}
		if !mustEDF {
			res.Classes = append(res.Classes, "edf_near_equal")
		}
		counts := make([]uint64, n)
		start := uint64(p.Start)
		end := start + window
		if p.Start > math.MaxUint32-uint32(window)-uint32(n)-200 {
			res.Classes = append(res.Classes, "start_near_wrap")
		}
		picks := 0
		for seq() < end {
			before := seq()
			got := sc.nextIndex()
			after := seq()
			if after-before > uint64(n) || after <= before {
				return vk.Bad("weights %v (scaled %v): pick starting at sequence %d consumed %d sequence numbers (> n=%d)", w, sc.weights, before, after-before, n)
			}
			if got < 0 || got >= n {
				return vk.Bad("weights %v: pick at sequence %d returned index %d", w, after, got)
			}
			if after <= end {
				counts[got]++
				picks++
			}
		}
		for i := range counts {
			if counts[i] != uint64(sc.weights[i]) {
				return vk.Bad("weights %v start %d: backend %d chosen %d times in a window of 65535*%d sequence numbers, scaled weight %d", w, p.Start, i, counts[i], n, sc.weights[i])
			}
		}
		res.Steps = picks
		return res
	default:
		return vk.Bad("unknown scheduler type %T", s)
	}
}

func vfC36Fmt(rs []*big.Rat) []string {
	var out []string
	for _, r := range rs {
		out = append(out, r.FloatString(4))
	}
	return out
}

func TestVerifC36Sched(t *testing.T) {
	vk.Check(t, vk.Unit[vfC36SchedPlan]{
		ID: "C36", Name: "sched",
		Rule: "weight vectors of 1..24 endpoints from 9 shapes (small ints with zeros, equal, near-equal around the rounding step, ratios to 1e6, arbitrary, mostly zero, extreme ratios 1e12, exact k/2 of 65535 ties, one heavy) times a 1e-6..1e6 scale; start sequence numbers low / uniform / as close to 2^32 as the window allows. The real picker.newScheduler is built from endpointWeight objects and driven for a full window of 65535*n sequence numbers. non-trivial = the EDF path (not the round-robin fallback) was taken",
		Gen:  vfC36GenSched, Run: vfC36RunSched,
	})
}

// ------------------------------------------------------- endpointWeight --

type vfC36Ev struct {
	// Kind 0: usable load report, 1: weight() query, 2: empty report (qps or utilization 0)
	Kind int `json:"kind"`
	// Dt is the time since the previous event in ns (>= 0).
	Dt      int64   `json:"dt"`
	Qps     float64 `json:"qps,omitempty"`
	Util    float64 `json:"util,omitempty"`     // cpu utilization
	AppUtil float64 `json:"app_util,omitempty"` // application utilization (takes precedence when non-zero)
	Eps     float64 `json:"eps,omitempty"`
}

type vfC36WPlan struct {
	Blackout int64    `json:"blackout"`
	Expire   int64    `json:"expire"`
	Penalty  float64  `json:"penalty"`
	Events   []vfC36Ev `json:"events"`
}

func vfC36GenW(rt *rapid.T) vfC36WPlan {
	p := vfC36WPlan{
		Blackout: rapid.SampledFrom([]int64{int64(10 * time.Second), 0, int64(time.Second), int64(time.Minute), 1}).Draw(rt, "blackout"),
		Expire:   rapid.SampledFrom([]int64{int64(3 * time.Minute), int64(30 * time.Second), int64(5 * time.Second), int64(3 * time.Minute), int64(time.Minute), 1, 0}).Draw(rt, "expire"),
		Penalty:  rapid.SampledFrom([]float64{0, 1, 1, 0.5, 2, 100}).Draw(rt, "penalty"),
	}
	nev := rapid.IntRange(8, vk.Pick(30, 80)).Draw(rt, "nev")
	for i := 0; i < nev; i++ {
		var e vfC36Ev
		switch rapid.IntRange(0, 9).Draw(rt, "dtkind") {
		case 0:
			e.Dt = 0
		case 1:
			e.Dt = p.Blackout + rapid.Int64Range(-1, 1).Draw(rt, "d")
		case 2:
			e.Dt = p.Expire + rapid.Int64Range(-1, 1).Draw(rt, "d")
		case 3:
			e.Dt = rapid.Int64Range(0, 2*p.Expire+1).Draw(rt, "dt")
		case 4:
			e.Dt = rapid.Int64Range(0, p.Blackout+1).Draw(rt, "dt")
		case 5, 6:
			e.Dt = rapid.Int64Range(0, p.Expire/4+1).Draw(rt, "dt")
		default:
			e.Dt = rapid.Int64Range(0, int64(time.Second)).Draw(rt, "dt")
		}
		if e.Dt < 0 {
			e.Dt = 0
		}
		switch k := rapid.IntRange(0, 9).Draw(rt, "kind"); {
		case k <= 3:
			e.Kind = 0
			e.Qps = rapid.Float64Range(0.001, 1e6).Draw(rt, "qps")
			if rapid.Bool().Draw(rt, "cpu") {
				e.Util = rapid.Float64Range(0.001, 2).Draw(rt, "util")
			}
			if e.Util == 0 || rapid.IntRange(0, 2).Draw(rt, "app") == 0 {
				e.AppUtil = rapid.Float64Range(0.001, 2).Draw(rt, "apputil")
			}
			if rapid.Bool().Draw(rt, "haseps") {
				e.Eps = rapid.Float64Range(0, e.Qps).Draw(rt, "eps")
			}
		case k <= 8:
			e.Kind = 1
		default:
			e.Kind = 2
			if rapid.Bool().Draw(rt, "zeroqps") {
				e.Util = 0.5
			} else {
				e.Qps = 100
			}
		}
		p.Events = append(p.Events, e)
	}
	return p
}

func vfC36RunW(_ *testing.T, p vfC36WPlan) vk.Result {
	if p.Blackout < 0 || p.Expire < 0 || p.Penalty < 0 {
		return vk.Result{Discard: true}
	}
	cur := vfC36Base
	savedNow := internal.TimeNow
	defer func() { internal.TimeNow = savedNow }()
	internal.TimeNow = func() time.Time { return cur }

	cfg := &lbConfig{ErrorUtilizationPenalty: p.Penalty, BlackoutPeriod: iserviceconfig.Duration(p.Blackout), WeightExpirationPeriod: iserviceconfig.Duration(p.Expire)}
	ew := vfC36NewEndpointWeight(cfg)

	// model
	has := false
	var last int64  // time of the latest usable report
	var val float64 // weight of the latest usable report
	// start of the current blackout measurement (-1: none). Two readings that
	// differ only when a gap >= expiration between two reports was never
	// observed by a weight() query: "lazy" keeps the old start, "spec" restarts.
	nesLazy, nesSpec := int64(-1), int64(-1)
	now := int64(0)

	res := vk.Result{}
	seen := map[string]bool{}
	for i, e := range p.Events {
		if e.Dt < 0 {
			return vk.Result{Discard: true}
		}
		now += e.Dt
		cur = vfC36Base.Add(time.Duration(now))
		switch e.Kind {
		case 0, 2:
			load := &v3orcapb.OrcaLoadReport{RpsFractional: e.Qps, CpuUtilization: e.Util, ApplicationUtilization: e.AppUtil, Eps: e.Eps}
			ew.OnLoadReport(load)
			util := e.AppUtil
			if util == 0 {
				util = e.Util
			}
			if util == 0 || e.Qps == 0 {
				seen["empty_report"] = true
				continue
			}
			if util < 0 || e.Qps < 0 || e.Eps < 0 {
				return vk.Result{Discard: true}
			}
			if has && now-last >= p.Expire && nesSpec >= 0 {
				nesSpec = -1
			}
			val = e.Qps / (util + e.Eps/e.Qps*p.Penalty)
			last, has = now, true
			if nesLazy < 0 {
				nesLazy = now
			}
			if nesSpec < 0 {
				nesSpec = now
			}
		case 1:
			got := ew.weight(cur, time.Duration(p.Expire), time.Duration(p.Blackout), false)
			var wantLazy, wantSpec float64
			why := ""
			switch {
			case !has:
				why = "before_first_report"
			case now-last >= p.Expire:
				why = "expired"
				nesLazy, nesSpec = -1, -1
			default:
				wantLazy, wantSpec = val, val
				if p.Blackout != 0 && (nesLazy < 0 || now-nesLazy < p.Blackout) {
					wantLazy = 0
				}
				if p.Blackout != 0 && (nesSpec < 0 || now-nesSpec < p.Blackout) {
					wantSpec = 0
				}
				switch {
				case wantLazy != wantSpec:
					why = "unobserved_expiry_gap(either)"
				case wantLazy == 0:
					why = "blackout"
				default:
					why = "usable"
				}
			}
			seen[why] = true
			ok := vfC36Close(got, wantLazy) || vfC36Close(got, wantSpec)
			if !ok {
				return vk.Bad("event %d (%s) at t=%v: weight() = %v, want %v (blackout %v, expiration %v, latest report %v ago, penalty %v)", i, why, time.Duration(now), got, wantLazy, time.Duration(p.Blackout), time.Duration(p.Expire), time.Duration(now-last), p.Penalty)
			}
		default:
			return vk.Result{Discard: true}
		}
	}
	for k := range map[string]bool{"before_first_report": true, "expired": true, "blackout": true, "usable": true, "unobserved_expiry_gap(either)": true, "empty_report": true} {
		if seen[k] {
			res.Classes = append(res.Classes, k)
		}
	}
	res.NonTrivial = seen["usable"] && (seen["blackout"] || seen["expired"])
	res.Steps = len(p.Events)
	return res
}

func vfC36Close(got, want float64) bool {
	if want == 0 {
		return got == 0
	}
	return math.Abs(got-want) <= 1e-12*math.Abs(want)
}

func TestVerifC36Weight(t *testing.T) {
	vk.Check(t, vk.Unit[vfC36WPlan]{
		ID: "C36", Name: "weight",
		Rule: "timelines of 8..30/80 events (usable ORCA report with qps/cpu/app utilization/eps, empty report, weight() query) with gaps from {0, blackout±1ns, expiration±1ns, 0..2*expiration, 0..blackout, 0..expiration/4, 0..1s}; blackout in {0,1ns,1s,10s,1m}, expiration in {0,1ns,5s,30s,1m,3m}, penalty in {0,.5,1,2,100}; explicit clock through internal.TimeNow and weight(now). Model: 0 before the first usable report, 0 when now-latest >= expiration, 0 while less than blackout since the first report of the current streak, else qps/(util+eps/qps*penalty) within 1e-12 relative. non-trivial = a usable weight and a blackout or expiration were both observed",
		Gen:  vfC36GenW, Run: vfC36RunW,
	})
}
