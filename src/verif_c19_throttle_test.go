package grpc

// C19 (throttling part): the retry token bucket configured through
// parseServiceConfig follows the gRFC A6 arithmetic.
//
// The plan carries the *decimal literals* of maxTokens / tokenRatio as they
// appear in the service config JSON plus a sequence of failure / success
// events. The oracle is an exact-rational (math/big.Rat) token bucket built
// from the literals; it never looks at the code's float state to decide what
// the expected answer is.

import (
	"fmt"
	"math/big"
	"strings"
	"testing"

	"google.golang.org/grpc/internal/verifkit/vk"
	"pgregory.net/rapid"
)

type vfC19ThrPlan struct {
	// Max / Ratio are JSON number literals; "" means the key is omitted.
	Max   string `json:"max"`
	Ratio string `json:"ratio"`
	// Ops: 'f' = an attempt failed with a retryable code (throttle()),
	// 's' = an RPC completed successfully (successfulRPC()).
	Ops string `json:"ops"`
	// MC: 0 = no "methodConfig" key, 1 = "methodConfig": [], 2 = one entry.
	MC int `json:"mc"`
}

const vfC19SigNoMC = "c19.throttling_unvalidated_without_methodconfig"

func vfC19Rat(lit string) (*big.Rat, bool) {
	r, ok := new(big.Rat).SetString(lit)
	return r, ok
}

func vfC19ExactF64(r *big.Rat) bool {
	_, exact := r.Float64()
	return exact
}

// vfC19GenLiteral draws a JSON number literal. small=true biases towards small
// magnitudes (for ratios).
func vfC19GenMax(rt *rapid.T) string {
	switch rapid.IntRange(0, 9).Draw(rt, "max_kind") {
	case 0, 1, 2: // small integers: the threshold is reachable in a short run
		return fmt.Sprint(rapid.IntRange(1, 12).Draw(rt, "max_small"))
	case 3:
		return fmt.Sprint(rapid.IntRange(1, 1000).Draw(rt, "max_int"))
	case 4: // up to 3 decimals
		return fmt.Sprintf("%d.%03d", rapid.IntRange(0, 20).Draw(rt, "max_ip"), rapid.IntRange(0, 999).Draw(rt, "max_fp"))
	case 5: // dyadic fractions: float arithmetic is exact
		return fmt.Sprintf("%d.%s", rapid.IntRange(0, 16).Draw(rt, "max_ip"), rapid.SampledFrom([]string{"5", "25", "75", "125", "0"}).Draw(rt, "max_dy"))
	case 6: // parser boundaries
		return rapid.SampledFrom([]string{"1000", "1000.0", "1e3", "1000.001", "1001", "999.999", "0.001", "1e-3", "0", "0.0", "-0", "-1", "-0.5", "1e4", "1E2", "0.5", "1"}).Draw(rt, "max_edge")
	case 7:
		return ""
	case 8: // exponent forms
		return fmt.Sprintf("%de%d", rapid.IntRange(1, 99).Draw(rt, "max_m"), rapid.IntRange(-3, 2).Draw(rt, "max_e"))
	default:
		return fmt.Sprintf("%d.%d", rapid.IntRange(1, 8).Draw(rt, "max_ip"), rapid.IntRange(0, 9).Draw(rt, "max_f1"))
	}
}

func vfC19GenRatio(rt *rapid.T) string {
	switch rapid.IntRange(0, 9).Draw(rt, "ratio_kind") {
	case 0, 1:
		return rapid.SampledFrom([]string{"0.1", "0.5", "1", "0.25", "0.2", "0.3", "2", "0.75", "1.5", "0.125", "3"}).Draw(rt, "ratio_common")
	case 2, 3: // 3 decimals
		return fmt.Sprintf("%d.%03d", rapid.IntRange(0, 2).Draw(rt, "ratio_ip"), rapid.IntRange(0, 999).Draw(rt, "ratio_fp"))
	case 4: // edges
		return rapid.SampledFrom([]string{"0", "0.0", "-0", "-1", "-0.001", "0.001", "1e-3", "1000", "1e6", "0.0001", "1e-9", "1E-1", "5e-1"}).Draw(rt, "ratio_edge")
	case 5:
		return ""
	case 6: // more than 3 decimals
		return fmt.Sprintf("0.%06d", rapid.IntRange(1, 999999).Draw(rt, "ratio_6"))
	case 7: // dyadic
		return rapid.SampledFrom([]string{"0.5", "0.25", "0.125", "0.0625", "1.5", "2.25", "4"}).Draw(rt, "ratio_dy")
	default:
		return fmt.Sprintf("%d.%d", rapid.IntRange(0, 3).Draw(rt, "ratio_ip"), rapid.IntRange(1, 9).Draw(rt, "ratio_f1"))
	}
}

func vfC19GenThr(rt *rapid.T) vfC19ThrPlan {
	p := vfC19ThrPlan{Max: vfC19GenMax(rt), Ratio: vfC19GenRatio(rt)}
	maxOps := vk.Pick(50, 500)
	// Run lengths are sized from the configuration so that the bucket really
	// crosses max/2 in both directions: a failure run of about max/2 and a
	// success run of about (max/2)/ratio, each perturbed by a few steps.
	mx, ok1 := vfC19Rat(p.Max)
	ra, ok2 := vfC19Rat(p.Ratio)
	fRun, sRun := 3, 3
	if ok1 && ok2 && p.Max != "" && p.Ratio != "" && mx.Sign() > 0 && ra.Sign() > 0 {
		half, _ := new(big.Rat).Quo(mx, big.NewRat(2, 1)).Float64()
		fRun = int(half) + 1
		q, _ := new(big.Rat).Quo(new(big.Rat).Quo(mx, big.NewRat(2, 1)), ra).Float64()
		if q > float64(maxOps) {
			q = float64(maxOps)
		}
		sRun = int(q) + 1
	}
	if fRun > maxOps {
		fRun = maxOps
	}
	var sb strings.Builder
	nRuns := rapid.IntRange(1, 8).Draw(rt, "nruns")
	for i := 0; i < nRuns && sb.Len() < maxOps; i++ {
		kind := byte('f')
		n := 0
		if rapid.Bool().Draw(rt, "run_is_success") {
			kind = 's'
			n = rapid.IntRange(0, sRun+3).Draw(rt, "run_len")
		} else {
			n = rapid.IntRange(0, fRun+3).Draw(rt, "run_len")
		}
		for j := 0; j < n && sb.Len() < maxOps; j++ {
			sb.WriteByte(kind)
		}
		// sprinkle single opposite events
		if rapid.IntRange(0, 3).Draw(rt, "sprinkle") == 0 && sb.Len() < maxOps {
			sb.WriteByte('f' + 's' - kind)
		}
	}
	p.Ops = sb.String()
	p.MC = rapid.SampledFrom([]int{0, 1, 1, 2, 2, 2}).Draw(rt, "mc")
	return p
}

func vfC19RunThr(_ *testing.T, p vfC19ThrPlan) vk.Result {
	var fields []string
	if p.Max != "" {
		fields = append(fields, `"maxTokens": `+p.Max)
	}
	if p.Ratio != "" {
		fields = append(fields, `"tokenRatio": `+p.Ratio)
	}
	js := `{"retryThrottling": {` + strings.Join(fields, ", ") + `}`
	switch p.MC {
	case 1:
		js += `, "methodConfig": []`
	case 2:
		js += `, "methodConfig": [{"name": [{"service": "vf.S"}], "waitForReady": true}]`
	}
	js += `}`

	// ---- expected parser verdict, from the literals ----
	zero := new(big.Rat)
	mx, okM := zero, true
	ra, okR := zero, true
	if p.Max != "" {
		mx, okM = vfC19Rat(p.Max)
	}
	if p.Ratio != "" {
		ra, okR = vfC19Rat(p.Ratio)
	}
	if !okM || !okR {
		return vk.Result{Discard: true}
	}
	wantAccept := mx.Sign() > 0 && mx.Cmp(big.NewRat(1000, 1)) <= 0 && ra.Sign() > 0

	res := vk.Result{}
	pr := parseServiceConfig(js, defaultMaxCallAttempts)
	if (pr.Err == nil) != wantAccept {
		if p.MC == 0 && !wantAccept {
			// Known shape: validation is skipped when "methodConfig" is absent.
			r := vk.Bad("parseServiceConfig(%s) accepted an out-of-range retryThrottling policy (no methodConfig key => validation skipped)", js)
			r.Sig = vfC19SigNoMC
			return r.With("parser_unvalidated_no_methodconfig")
		}
		return vk.Bad("parseServiceConfig(%s): err=%v, want accepted=%v (maxTokens must be in (0,1000], tokenRatio > 0)", js, pr.Err, wantAccept)
	}
	if !wantAccept {
		return res.With("parser_reject")
	}
	res = res.With("parser_accept")
	sc, ok := pr.Config.(*ServiceConfig)
	if !ok || sc == nil {
		return vk.Bad("parseServiceConfig(%s) returned config of type %T", js, pr.Config)
	}

	// ---- install exactly as the channel does ----
	cc := &ClientConn{}
	cc.applyServiceConfigAndBalancer(sc, nil)
	rt, _ := cc.retryThrottler.Load().(*retryThrottler)
	if rt == nil {
		return vk.Bad("service config %s accepted but no retryThrottler was installed", js)
	}

	// ---- exact model ----
	tokens := new(big.Rat).Set(mx)
	thresh := new(big.Rat).Quo(mx, big.NewRat(2, 1))
	one := big.NewRat(1, 1)
	mxF, _ := mx.Float64()
	// tolerance for the float implementation: relative 1e-9 of max (the code
	// accumulates float64 rounding errors of ~1e-16 per operation).
	tol := new(big.Rat).SetFloat64(mxF * 1e-9)
	exact := vfC19ExactF64(mx) && vfC19ExactF64(ra) && vfC19ExactF64(thresh)
	if exact {
		res = res.With("float_exact_cfg")
	}

	readTokens := func() float64 {
		rt.mu.Lock()
		defer rt.mu.Unlock()
		return rt.tokens
	}
	if got := readTokens(); got != mxF {
		return vk.Bad("bucket starts at %v, want maxTokens %v (%s)", got, mxF, js)
	}

	above := true // tokens > thresh (the bucket starts full, max > max/2)
	downCross, upCross, fpBoundary := 0, 0, 0
	refused, allowed := 0, 0
	for i := 0; i < len(p.Ops); i++ {
		switch p.Ops[i] {
		case 'f':
			tokens.Sub(tokens, one)
			if tokens.Sign() < 0 {
				tokens.SetInt64(0)
			}
			exact = exact && vfC19ExactF64(tokens)
			want := tokens.Cmp(thresh) <= 0
			got := rt.throttle()
			d := new(big.Rat).Sub(tokens, thresh)
			near := new(big.Rat).Abs(d).Cmp(tol) <= 0
			if got != want {
				if exact || !near {
					return vk.Bad("op %d (failure): throttle()=%v, want %v: exact bucket after removal = %s, maxTokens/2 = %s (config %s, ops %q)", i, got, want, tokens.FloatString(12), thresh.FloatString(12), js, p.Ops[:i+1])
				}
				// decimal literal not representable in binary and the exact
				// bucket is within 1e-9·max of the threshold: not asserted.
				fpBoundary++
			}
			if got {
				refused++
			} else {
				allowed++
			}
		case 's':
			tokens.Add(tokens, ra)
			if tokens.Cmp(mx) > 0 {
				tokens.Set(mx)
			}
			exact = exact && vfC19ExactF64(tokens)
			rt.successfulRPC()
		default:
			return vk.Result{Discard: true}
		}
		// bucket bounds and agreement with the exact model
		got := readTokens()
		if !(got >= 0 && got <= mxF) {
			return vk.Bad("op %d (%c): bucket = %v outside [0, %v] (config %s, ops %q)", i, p.Ops[i], got, mxF, js, p.Ops[:i+1])
		}
		gr := new(big.Rat).SetFloat64(got)
		if gr == nil {
			return vk.Bad("op %d: bucket is not finite: %v", i, got)
		}
		diff := new(big.Rat).Abs(new(big.Rat).Sub(gr, tokens))
		if exact && diff.Sign() != 0 {
			return vk.Bad("op %d (%c): bucket = %v, exact model = %s (all operands exactly representable; config %s, ops %q)", i, p.Ops[i], got, tokens.FloatString(12), js, p.Ops[:i+1])
		}
		if diff.Cmp(tol) > 0 {
			return vk.Bad("op %d (%c): bucket = %v deviates from the exact model %s by more than %s (config %s, ops %q)", i, p.Ops[i], got, tokens.FloatString(12), tol.FloatString(12), js, p.Ops[:i+1])
		}
		nowAbove := tokens.Cmp(thresh) > 0
		if above && !nowAbove {
			downCross++
		}
		if !above && nowAbove {
			upCross++
		}
		above = nowAbove
	}
	res.Steps = len(p.Ops)
	res.NonTrivial = downCross >= 1 && upCross >= 1
	if downCross > 0 {
		res = res.With("crossed_down")
	}
	if upCross > 0 {
		res = res.With("crossed_up")
	}
	if downCross >= 2 {
		res = res.With("crossed_down>=2")
	}
	if fpBoundary > 0 {
		res = res.With("fp_boundary_disagreement_unasserted")
	}
	if refused > 0 {
		res = res.With("some_refused")
	}
	if allowed > 0 {
		res = res.With("some_allowed")
	}
	if tokens.Sign() == 0 {
		res = res.With("ended_empty")
	}
	if exact {
		res = res.With("float_exact_run")
	}
	return res
}

func TestVerifC19Throttle(t *testing.T) {
	vk.Check(t, vk.Unit[vfC19ThrPlan]{
		ID: "C19", Name: "throttle",
		Rule: "service config JSON with maxTokens/tokenRatio decimal literals (small ints, 3-decimal, dyadic, exponent forms, parser boundaries 0/1000/1000.001/negative/omitted) parsed by parseServiceConfig and installed by applyServiceConfigAndBalancer; runs of failures (throttle) and successes (successfulRPC) sized around max/2 and (max/2)/ratio; oracle = exact big.Rat token bucket. non-trivial = accepted config whose exact bucket crossed maxTokens/2 downwards and upwards at least once each",
		Gen:  vfC19GenThr, Run: vfC19RunThr,
	})
}
